#!/bin/bash
# Re-runs the targeted check (and any other check recorded as catching it) against every kept seeded change, with the
# CURRENT checks (quick tier, VERIF_SEED=1). usage: tools/reeval_all_seeded.sh [stream-index stream-count]
cd "$(dirname "$0")/.."
i=${1:-0}; n=${2:-1}; k=0
for d in seeded/*/; do
  id=$(basename $d); k=$((k+1)); [ $((k % n)) -eq $i ] || continue
  extra=$(/venv/bin/python -c "
import json,sys; m=json.load(open('seeded/$id/meta.json')); print(' '.join(p for p in m.get('checks_quick_seed1',{}) if p!=m['property']))")
  tools/eval_seeded.py --from-seeded $id --checks-only $extra 2>&1 | tail -1
done
