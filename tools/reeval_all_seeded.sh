#!/bin/bash
# Re-evaluates every kept seeded change against the current checks (targeted property only). Slow (~1 min each).
cd "$(dirname "$0")/.."
for d in seeded/*/; do id=$(basename $d); tools/eval_seeded.py --from-seeded $id 2>&1 | tail -1; done
