#!/opt/veriftools/pyvenv/bin/python
"""Validates MANIFEST.json and every evidence/*.json against the schemas in /root/.vp (needs jsonschema: tooling venv)."""
import glob, json, os, sys
import jsonschema
ROOT = os.path.dirname(os.path.dirname(os.path.abspath(__file__)))
bad = 0
def v(path, schema):
    global bad
    try:
        jsonschema.validate(json.load(open(path)), json.load(open(schema)))
    except Exception as e:  # noqa: BLE001
        bad += 1; print("INVALID", path, str(e)[:300])
v(f"{ROOT}/MANIFEST.json", "/root/.vp/MANIFEST.schema.json")
for f in sorted(glob.glob(f"{ROOT}/evidence/*.json")):
    v(f, "/root/.vp/EVIDENCE.schema.json")
ids = [json.loads(l)["id"] for l in open(f"{ROOT}/properties.jsonl")]
m = json.load(open(f"{ROOT}/MANIFEST.json"))
claimed = {c["property"] if "property" in c else c.get("id") for c in m.get("checks", [])}
print("manifest checks:", len(m.get("checks", [])), "not_applicable:", m.get("not_applicable"), "evidence files:", len(glob.glob(f"{ROOT}/evidence/*.json")))
print("OK" if not bad else f"{bad} invalid"); sys.exit(1 if bad else 0)
