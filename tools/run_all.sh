#!/bin/bash
# usage: tools/run_all.sh <tier> <seed> [ids...]   - runs the checks sequentially, prints one summary line each
cd "$(dirname "$0")/.." || exit 2
tier=${1:-quick}; seed=${2:-1}; shift 2
ids=${@:-C01 C02 C03 C04 C05 C06 C07 C08 C09 C10 C11 C12 C13 C14 C15 C16 C17 C18 C19 C20}
rc=0
for p in $ids; do
  VERIF_SEED=$seed VERIF_VERBOSE=1 ./check $p --tier $tier > /tmp/run_all_$p.log 2>&1; r=$?
  grep "^C[0-9][0-9] tier\|VIOLATION\|HARNESS\|FAIL" /tmp/run_all_$p.log | cut -c1-400
  grep -A40 max_metrics /tmp/run_all_$p.log | grep ratio | sort -t'"' -k4 -gr | head -4
  [ $r -ne 0 ] && rc=$r
done
exit $rc
