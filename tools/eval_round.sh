#!/bin/bash
# usage: tools/eval_round.sh <prefix e.g. r2> <PID> [extra props...]  - evaluates every patchK.diff in /tmp/<prefix>-<PID>-out
cd "$(dirname "$0")/.."
pre=$1; pid=$2; shift 2
for k in 1 2 3; do
  [ -f /tmp/$pre-$pid-out/patch$k.diff ] || continue
  tools/eval_seeded.py /tmp/$pre-$pid-out $k $pid-$pre-$k $pid "$@" 2>&1 | tail -1
done
