#!/venv/bin/python
"""
Confirms a seeded breaking change and runs our checks against it.

usage: tools/eval_seeded.py <agent-out-dir> <K> <seed-id> <property> [extra properties to run...]
  1. scratch git worktree of /repo HEAD under /var/tmp; `git apply patchK.diff`
  2. repository test-suite against the patched tree (must pass), demoK.py (must fail)
  3. demoK.py against the unpatched tree (must pass)
  4. quick tier of the given checks with TORCHJD_SRC pointing at the patched tree (VERIF_OUT redirected)
  5. writes /verif/seeded/<seed-id>/{patch.diff, demo.py, notes.md, meta.json}; removes the worktree
"""
import json, os, shutil, subprocess, sys, tempfile, time

ROOT = os.path.dirname(os.path.dirname(os.path.abspath(__file__)))
CHECKS_ONLY = "--checks-only" in sys.argv  # consistency re-run: the patch was confirmed before; only re-run our checks
if CHECKS_ONLY:
    sys.argv.remove("--checks-only")
if sys.argv[1] == "--from-seeded":
    # re-evaluate a kept seeded change from /verif/seeded/<id>/ (patch.diff, demo.py, notes.md; property from meta.json)
    sid = sys.argv[2]
    _d = os.path.join(ROOT, "seeded", sid)
    _stage = tempfile.mkdtemp(prefix="tjd-stage-", dir="/var/tmp")
    for a, b in (("patch.diff", "patch0.diff"), ("demo.py", "demo0.py"), ("notes.md", "notes0.md")):
        shutil.copy(os.path.join(_d, a), os.path.join(_stage, b))
    prop = json.load(open(os.path.join(_d, "meta.json")))["property"]
    src_dir, K, extra = _stage, "0", sys.argv[3:]
else:
    src_dir, K, sid, prop, *extra = sys.argv[1:]
tmp = tempfile.mkdtemp(prefix="tjd-seed-", dir="/var/tmp")
wt = os.path.join(tmp, "wt")
def run(cmd, **kw):
    return subprocess.run(cmd, capture_output=True, text=True, **kw)
try:
    r = run(["git", "-C", "/repo", "worktree", "add", "--detach", "-q", wt, "HEAD"]); assert r.returncode == 0, r.stderr
    patch = os.path.join(src_dir, f"patch{K}.diff"); demo = os.path.join(src_dir, f"demo{K}.py")
    env_clean = dict(os.environ, PYTHONPATH=os.path.join(wt, "src"))
    old_meta = {}
    if CHECKS_ONLY:
        old_meta = json.load(open(os.path.join(ROOT, "seeded", sid, "meta.json")))
    r = run(["git", "-C", wt, "apply", "--check", patch]); assert r.returncode == 0, r.stderr
    if not CHECKS_ONLY:
        d0 = run(["/venv/bin/python", demo], env=env_clean, cwd=tmp)
    r = run(["git", "-C", wt, "apply", patch]); assert r.returncode == 0, r.stderr
    if not CHECKS_ONLY:
        t = run(["/venv/bin/python", "-m", "pytest", "-q", "-p", "no:cacheprovider", "-n", "8", "tests"], env=env_clean, cwd=wt)
        tests = t.stdout.strip().splitlines()[-1] if t.stdout.strip() else t.stderr[-200:]
        d1 = run(["/venv/bin/python", demo], env=env_clean, cwd=tmp)
    checks = {}
    for p in [prop] + extra:
        env = dict(os.environ, TORCHJD_SRC=os.path.join(wt, "src"), VERIF_OUT=tmp, VERIF_SEED="1")
        t0 = time.time()
        c = run([os.path.join(ROOT, "check"), p, "--tier", "quick"], env=env)
        labels = sorted({l.split("]")[0][6:] for l in c.stdout.splitlines() if l.startswith("FAIL [")})
        first = next((l for l in c.stdout.splitlines() if l.startswith("FAIL [")), "")[:300]
        checks[p] = {"exit": c.returncode, "wall_s": round(time.time() - t0, 1), "labels": labels[:6], "first_failure": first}
    confirmed = (old_meta["confirmed"] if CHECKS_ONLY else
                 {"tests_with_patch": tests, "demo_with_patch_exit": d1.returncode, "demo_without_patch_exit": d0.returncode})
    meta = {"id": sid, "property": prop, "source": "independent sub-agent (saw only the property text and its own worktree)",
            "confirmed": confirmed,
            "checks_quick_seed1": checks,
            "caught_by": ", ".join(p for p, c in checks.items() if c["exit"] == 1) or "NOT CAUGHT",
            "how": "; ".join(f"{p}: {', '.join(c['labels'][:3])}" for p, c in checks.items() if c["exit"] == 1)}
    out = os.path.join(ROOT, "seeded", sid); os.makedirs(out, exist_ok=True)
    shutil.copy(patch, os.path.join(out, "patch.diff")); shutil.copy(demo, os.path.join(out, "demo.py"))
    shutil.copy(os.path.join(src_dir, f"notes{K}.md"), os.path.join(out, "notes.md"))
    old = {}
    mp = os.path.join(out, "meta.json")
    if os.path.exists(mp):
        old = json.load(open(mp))
    for k in ("change", "needs"):
        meta[k] = old.get(k, "")
    for k in ("source", "first_sight", "what_we_ran"):
        if k in old:
            meta[k] = old[k]
    json.dump(meta, open(mp, "w"), indent=1)
    print(sid, "tests:", confirmed["tests_with_patch"], "| demo patched/clean:", confirmed["demo_with_patch_exit"], confirmed["demo_without_patch_exit"], "|", {p: (c["exit"], c["labels"][:3]) for p, c in checks.items()})
finally:
    run(["git", "-C", "/repo", "worktree", "remove", "--force", wt])
    shutil.rmtree(tmp, ignore_errors=True)
    if "_stage" in globals():
        shutil.rmtree(_stage, ignore_errors=True)
