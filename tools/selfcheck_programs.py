#!/venv/bin/python
"""Harness sanity: the NumPy dual-number oracle must agree with plain torch.autograd (not torchjd) on random programs."""
import os, sys
ROOT = os.path.dirname(os.path.dirname(os.path.abspath(__file__)))
sys.path.insert(0, ROOT)
from vlib.runner import setup_process; setup_process()
import numpy as np, torch
from hypothesis import given, settings, seed, HealthCheck
from vlib import programs as P
stats = {"n": 0, "skipped": 0, "maxerr": 0.0, "ops": {}}

@seed(int(sys.argv[1]) if len(sys.argv) > 1 else 0)
@settings(max_examples=int(sys.argv[2]) if len(sys.argv) > 2 else 2000, database=None, deadline=None, suppress_health_check=list(HealthCheck))
@given(P.programs(dtypes=("float64",)))
def t(prog):
    d = P.run_dual(prog)
    if not d.max_abs < 1e6:
        stats["skipped"] += 1
        return
    g = P.TorchGraph(prog)
    for nd in prog["nodes"]:
        stats["ops"][nd["op"]] = stats["ops"].get(nd["op"], 0) + 1
    for ref in prog["outputs"]:
        y = g.get(ref)
        v, _ = d.get(ref)
        assert tuple(y.shape) == v.shape, (y.shape, v.shape)
        assert np.allclose(y.detach().numpy(), v, rtol=1e-12, atol=1e-12)
        for li, leaf in enumerate(g.leaves):
            if not leaf.requires_grad:
                continue
            J = d.jac(ref, li, prog)
            rows = []
            for k in range(y.numel()):
                go = torch.zeros(y.numel(), dtype=y.dtype); go[k] = 1
                gr, = torch.autograd.grad(y, leaf, go.reshape(y.shape), retain_graph=True, allow_unused=True)
                rows.append(np.zeros(leaf.numel()) if gr is None else gr.reshape(-1).numpy())
            Jt = np.array(rows).reshape(y.numel(), leaf.numel())
            err = np.abs(J - Jt).max(initial=0.0)
            stats["maxerr"] = max(stats["maxerr"], err / max(1.0, d.max_abs))
            assert err <= 1e-9 * max(1.0, d.max_abs), (err, prog)
    stats["n"] += 1
t()
print(stats)
