#!/venv/bin/python
"""Regenerates MANIFEST.json from the metadata of props/cNN.py (ID, LEVEL_TEXT, LEVEL_NOTE, TECHNIQUE, DESIGN_REF)."""
import json, os, sys

ROOT = os.path.dirname(os.path.dirname(os.path.abspath(__file__)))
sys.path.insert(0, ROOT)
from vlib.runner import load_prop  # noqa: E402

ALL = [json.loads(l)["id"] for l in open(os.path.join(ROOT, "properties.jsonl"))]
checks, na = [], []
for pid in ALL:
    if not os.path.exists(os.path.join(ROOT, "props", pid.lower() + ".py")):
        na.append({"property_id": pid, "reason": "check not built yet at this commit (design in DESIGN.md section 2); property-based testing applies"})
        continue
    mod = load_prop(pid)
    checks.append({
        "property_id": pid,
        "quick_cmd": f"./check {pid} --tier quick",
        "thorough_cmd": f"./check {pid} --tier thorough",
        "evidence_file": f"evidence/{pid}.json",
        "replay_cmd_template": f"./check {pid} --replay {{path}}",
        "engine": "hypothesis-runner",
        "level_claimed": {"category": "exploration", "text": mod.LEVEL_TEXT, "design_ref": getattr(mod, "DESIGN_REF", f"DESIGN.md section 2, {pid}")},
        "level_note": mod.LEVEL_NOTE,
        "technique": mod.TECHNIQUE,
    })
manifest = {
    "version": 1,
    "setup_cmd": "/venv/bin/python -c 'import hypothesis' 2>/dev/null || /venv/bin/pip install --no-index --find-links /opt/veriftools/wheels hypothesis",
    "hooks": {
        "guard": "TORCHJD_VERIF",
        "enable": "no source hooks are needed: every observable is public API; checks import torchjd from /repo/src of the current working tree (TORCHJD_SRC overrides it for scratch copies)",
        "baseline_off_cmd": "cd /repo && /venv/bin/python -m pytest -ra -q -p no:cacheprovider --timeout=900 --continue-on-collection-errors",
        "source_commits": [],
        "add_only": True,
    },
    "engines": [{
        "name": "hypothesis-runner", "path": "vlib/runner.py", "serves_properties": [c["property_id"] for c in checks],
        "kind_free_text": "sharded (16 processes) Hypothesis @given / finite enumeration driver with explicit oracles per property (props/cNN.py), collect-then-shrink failure bucketing, JSON replay files, evidence writer",
    }],
    "checks": checks,
    "not_applicable": na,
    "notes": "All checks are generated-input search against explicit oracles (property-based testing); exit 0 = held on everything explored, 1 = VIOLATION line + replay file, 2 = harness error/inconclusive. VERIF_SEED selects the Hypothesis seeds. Genuine defects repaired by 'fix:' commits in /repo are listed in known_findings.json; their witnesses are regression replays under replays/<ID>/regress_*.json.",
}
json.dump(manifest, open(os.path.join(ROOT, "MANIFEST.json"), "w"), indent=1)
print(f"{len(checks)} checks, {len(na)} not yet claimed")
