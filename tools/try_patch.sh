#!/bin/bash
# usage: tools/try_patch.sh <patch.diff> <ID> [check args...]  - runs one check (quick, no shrink) against a scratch worktree with the patch applied
cd "$(dirname "$0")/.." || exit 2
patch=$(readlink -f "$1"); id=$2; shift 2
wt=$(mktemp -d /var/tmp/tjd-try-XXXXXX)
git -C /repo worktree add --detach -q "$wt/wt" HEAD && git -C "$wt/wt" apply "$patch" || { echo "apply failed"; exit 2; }
TORCHJD_SRC="$wt/wt/src" VERIF_OUT="$wt/out" VERIF_NO_SHRINK=1 ./check "$id" --tier quick "$@" 2>&1 | grep -E "^FAIL|tier=|VIOLATION|HARNESS" | cut -c1-300 | sort | uniq -c | sort -rn | head -${TRY_LINES:-8}
git -C /repo worktree remove --force "$wt/wt"; rm -rf "$wt"
