#!/venv/bin/python
"""Regression for the false alarm of C06 at thorough seed 7: `jdcheck.check_deposit` must find the input ordering when
many interchangeable all-zero blocks precede the only non-zero one (torchjd orders `inputs` by object address), and must
still fail conclusively when the increment landed on the wrong tensor.  usage: PYTHONPATH=/verif tools/test_deposit_search.py"""
import sys

import numpy as np
import torch

from vlib import jdcheck
from vlib.runner import Outcome

sizes = {7: (3, 2), 6: (), 0: (3, 2), 3: (1,), 9: (3, 2), 5: (3, 2), 10: (3,), 4: (3, 2), 1: (3, 1), 2: (3, 2), 8: (3, 2)}
L = [torch.zeros(sizes[i], requires_grad=True) for i in range(11)]
listed = [7, 6, 0, 3, 9, 5, 10, 4, 1, 2, 8]
internal = [7, 0, 9, 5, 4, 10, 3, 6, 1, 2, 8]  # the one-element input at column 33
blocks = {i: np.zeros((1, max(1, int(np.prod(sizes[i]))))) for i in listed}
blocks[3][0, 0] = 0.1854
M = torch.cat([torch.tensor(blocks[i], dtype=torch.float32) for i in internal], 1)
r = M[0].clone()
before = {i: None for i in range(11)}
off = 0
for i in internal:
    k = blocks[i].shape[1]
    L[i].grad = r[off : off + k].view(L[i].shape).clone()
    off += k
out = Outcome()
ok1 = jdcheck.check_deposit(out, "accumulate", blocks, L, before, (M, r), "float32", 1.0) and not out.fail and not out.classes
L[3].grad = torch.zeros(1)
L[6].grad = torch.tensor(0.1854)
out = Outcome()
ok2 = not jdcheck.check_deposit(out, "accumulate", blocks, L, before, (M, r), "float32", 1.0) and bool(out.fail) and not out.classes
print("ordering found:", ok1, " wrong deposit rejected:", ok2)
sys.exit(0 if ok1 and ok2 else 1)
