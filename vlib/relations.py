"""Shared logic for metamorphic relations between two aggregator runs (C08, C09, C10): per-aggregator tolerances
with the algorithm's amplification factor, and decision-margin filters for the discontinuous ones."""

from __future__ import annotations

import numpy as np
import torch

from vlib import refs
from vlib.matrices import eps_of, smax

K = 50.0
RANK_BASED = ("IMTLG", "AlignedMTL", "ConFIG")
TAU_CONIC = {"float64": 2e-4, "float32": 3e-3}
MARGIN = {"float64": 1e-10, "float32": 1e-4}


def cond_full_row_rank(J: np.ndarray):
    """Condition number of the NON-ZERO rows of J if they are linearly independent (or, for a tall matrix with more rows
    than columns, of its column space if the columns are linearly independent), else None.

    Exactly-zero rows are allowed: they make the rank deficient but not numerically ambiguous (the corresponding
    singular value is exactly 0, far below any rank tolerance); the zero matrix has rank 0 (cond 1)."""
    nz = J[np.any(J != 0, axis=1)]
    m, n = nz.shape
    if m == 0:
        return 1.0
    sv = np.linalg.svd(nz, compute_uv=False)
    if m > n:
        # tall: rank n < m is unambiguous when the n non-zero singular values are well separated from zero
        if sv[n - 1] <= 0:
            return None
        return float(sv[0] / sv[n - 1])
    if sv[m - 1] <= 0:
        return None
    return float(sv[0] / sv[m - 1])


def domain_exclusion(spec: dict, dtype: str, J: np.ndarray):
    """Reason why (aggregator, J) is outside the domain where relations between runs are claimed, or None."""
    name = spec["name"]
    m, n = J.shape
    eps = eps_of(dtype)
    s = smax(J)
    if name in RANK_BASED or name == "CAGrad":
        c = cond_full_row_rank(J)
        lim = 30.0 if dtype == "float32" else (300.0 if name == "AlignedMTL" else 1e3)
        if c is None or c > lim:
            return "rank-numerically-ambiguous"
    if name in ("UPGrad", "DualProj", "CAGrad"):
        if s < 2 * spec.get("norm_eps", 1e-4):
            return "below-2-norm_eps"
    if name == "ConFIG":
        # ConFIG's direction pinv(unit rows) w can vanish when the objectives cancel exactly (e.g. antiparallel unit rows):
        # the implementation then returns 0 or a rounding-noise direction depending on the summation order - a razor edge
        nz = J[np.any(J != 0, axis=1)]
        if nz.shape[0]:
            units = nz / np.linalg.norm(nz, axis=1, keepdims=True)
            wts = np.ones(nz.shape[0]) if spec.get("pref") is None else np.array(spec["pref"])[np.any(J != 0, axis=1)]
            d = np.linalg.pinv(units) @ wts
            if np.linalg.norm(d) < 1e-6 * np.linalg.norm(wts):
                return "config-direction-vanishes"
    if name == "IMTLG" and imtlg_balance(J) < 1e-3:
        # the weights are v / sum(v): when sum(v) nearly cancels they are huge and ill-conditioned (same rule as C17)
        return "imtlg-weights-sum-near-zero"
    if name == "CAGrad" and s > 0 and m <= 10:
        # CAGrad switches to the zero vector when its worst-case direction g_w is shorter than norm_eps (relative to
        # s): a discontinuity. The decision is ambiguous when the min-norm point of the hull is within a decade of
        # norm_eps, and in float32 whenever it is below the noise floor ~sqrt(eps) of the reduced matrix U sqrt(S).
        mu2, _ = refs.min_norm_hull(J)
        rel_mu = float(np.sqrt(mu2)) / s
        ne = spec.get("norm_eps", 1e-4)
        if ne / 10 <= rel_mu <= 10 * ne or (dtype == "float32" and rel_mu < 30 * np.sqrt(eps)):
            return "cagrad-stationarity-decision-ambiguous"
    if name in ("UPGrad", "DualProj") and s > 0:
        lam = max(0.0, float(np.linalg.eigvalsh(J @ J.T)[0]) / s**2)
        if spec.get("reg_eps", 1e-4) + lam < 50 * m * eps:
            return "reg_eps-below-gramian-noise(documented-domain)"
    if name == "Krum":
        k, f = spec.get("k", 1), spec["f"]
        if k < m:
            sc = np.sort(refs.krum_scores(J, f))
            gap = (sc[k] - sc[k - 1]) / max(sc[k], 1e-300)
            if gap < MARGIN[dtype] * 10:
                return "krum-score-tie"
    return None


def imtlg_balance(J: np.ndarray) -> float:
    """|sum v| / sum |v| for IMTL-G's un-normalised weights v = pinv(J J^T) (row norms), on the non-zero rows."""
    nz = J[np.any(J != 0, axis=1)]
    if nz.shape[0] == 0:
        return 1.0
    try:
        v = np.linalg.lstsq(nz @ nz.T, np.linalg.norm(nz, axis=1), rcond=None)[0]
    except np.linalg.LinAlgError:
        return 0.0
    den = float(np.abs(v).sum())
    # v can vanish altogether (e.g. a tall one-column matrix with sum_i j_i |j_i| = 0): the weights v / sum(v) are then 0/0
    smax2 = float(np.linalg.norm(nz, 2)) ** 2
    if den * smax2 <= 1e-6 * float(np.linalg.norm(nz, axis=1).sum()):
        return 0.0
    return abs(float(v.sum())) / den


def base_tolerance(spec: dict, dtype: str, J: np.ndarray, w_norm: float, x_norm: float) -> float:
    """Tolerance on |A(J) - A(J')| for two mathematically equivalent runs, absolute, scale-relative."""
    name = spec["name"]
    m, n = J.shape
    eps = eps_of(dtype)
    s = smax(J)
    w = max(1.0, w_norm)
    if name in ("UPGrad", "DualProj"):
        lam = max(0.0, float(np.linalg.eigvalsh(J @ J.T)[0]) / s**2) if s > 0 else 0.0
        reg = spec.get("reg_eps", 1e-4) + lam
        return K * (m + n) * eps / np.sqrt(reg) * s * w + 1e-300
    if name == "CAGrad":
        return TAU_CONIC[dtype] * s * w + K * (m + n) * eps * s * w + 1e-300
    if name in RANK_BASED:
        c = cond_full_row_rank(J) or 1.0
        amp = 1.0 / max(imtlg_balance(J), 1e-3) if name == "IMTLG" else 1.0
        return K * (m + n) * eps * c**2 * amp * max(x_norm, s) + 1e-300
    if name == "Krum":
        # plain average of k rows: error relative to the largest row norm (see C11)
        return K * eps * float(np.linalg.norm(J, axis=1).max(initial=0.0)) * 4 + 1e-300
    return K * (m + n) * eps * s * w + 1e-300


def mgda_loose_bound(J: np.ndarray, x: np.ndarray) -> float:
    """d(J) = sqrt(|A(J)|^2 - mu(J)): distance bound of an MGDA output to the unique min-norm point."""
    mu, _ = refs.min_norm_hull(J)
    return float(np.sqrt(max(float(x @ x) - mu, 0.0)))


def mgda_margin(spec: dict, J: np.ndarray) -> float:
    _, margin = refs.mgda_frank_wolfe(J, spec.get("epsilon", 0.001), spec.get("max_iters", 100))
    return margin


class ScriptedRandperm:
    """Context manager: torch.randperm returns the scripted permutations (in order), then falls back."""

    def __init__(self, script):
        self.script, self.calls, self.orig = script, 0, torch.randperm

    def __enter__(self):
        def fake(n, *a, **k):
            i = self.calls
            self.calls += 1
            if i < len(self.script) and len(self.script[i]) == n:
                return torch.tensor(self.script[i], dtype=torch.int64)
            return self.orig(n, *a, **k)

        torch.randperm = fake
        return self

    def __exit__(self, *exc):
        torch.randperm = self.orig


def weights_norm(A, Jt) -> float:
    w = getattr(A, "weighting", None)
    if w is None:
        return 1.0
    try:
        return float(torch.linalg.norm(w(Jt).double()))
    except Exception:  # noqa: BLE001
        return 1.0
