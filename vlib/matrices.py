"""Hypothesis strategies for Jacobian matrices, by family (DESIGN.md 1.3). Cases carry explicit data."""

from __future__ import annotations

import numpy as np
from hypothesis import strategies as st

SEEDS = st.integers(0, 2**32 - 1)

FAMILIES = (
    "grid",
    "gauss",
    "svd",
    "conflict",
    "dup",
    "zero_rows",
    "stationary",
    "nonconflict",
    "rowscaled",
    "rowscaled_mild",
    "lowrank",
    "orthoblock",
)


def orthonormal(rng, n: int, k: int) -> np.ndarray:
    """n x k matrix with orthonormal columns (k <= n)."""
    q, r = np.linalg.qr(rng.standard_normal((n, n)))
    q = q * np.sign(np.diag(r) + (np.diag(r) == 0))
    return q[:, :k]


def orthogonal(rng, n: int, kind: str = "dense") -> np.ndarray:
    if kind == "perm":
        p = rng.permutation(n)
        q = np.zeros((n, n))
        q[np.arange(n), p] = rng.choice([-1.0, 1.0], size=n)
        return q
    return orthonormal(rng, n, n)


def build(family: str, m: int, n: int, rng, extra: dict) -> np.ndarray:
    g = rng.standard_normal((m, n))
    if family == "gauss":
        return g
    if family == "svd" or family == "lowrank":
        r = min(m, n)
        if family == "lowrank":
            r = max(0, min(r, extra.get("rank", 1)))
        cond = extra.get("cond", 10.0)
        if r == 0:
            return np.zeros((m, n))
        s = np.exp(rng.uniform(-np.log(cond), 0.0, size=r))
        s[0] = 1.0
        if r > 1:
            s[-1] = 1.0 / cond
        return orthonormal(rng, m, r) @ np.diag(s) @ orthonormal(rng, n, r).T
    if family == "conflict":
        if m >= 2:
            i, j = rng.choice(m, size=2, replace=False)
            eps = extra.get("eps", 1e-2)
            g[j] = -(1.0 + eps) * g[i] + extra.get("delta", 1e-2) * rng.standard_normal(n)
        else:
            g = -np.abs(g)
        return g
    if family == "dup":
        if m >= 2:
            i, j = rng.choice(m, size=2, replace=False)
            g[j] = g[i]
        return g
    if family == "zero_rows":
        k = int(rng.integers(1, m + 1))
        g[rng.choice(m, size=k, replace=False)] = 0.0
        return g
    if family == "stationary":
        w = np.abs(rng.standard_normal(m)) + 0.1
        if extra.get("nonneg_only") and m >= 2:
            w[rng.integers(0, m)] = 0.0
        return g - np.outer(w, w @ g) / (w @ w)
    if family == "nonconflict":
        return np.abs(g)
    if family == "rowscaled":
        return g * 10.0 ** rng.uniform(-extra.get("decades", 6), extra.get("decades", 6), size=(m, 1))
    if family == "orthoblock":
        # 1-2 "free" rows orthogonal to each other - exactly (coordinate axes: Gramian entries exactly 0) or only up to
        # rounding (QR: entries of either sign at noise level) - that conflict with nobody, next to >= 3 mutually
        # conflicting rows for which the order of pairwise operations matters: data-dependent branches on the SIGN of
        # a Gramian entry flip on such matrices under any transformation that perturbs the noise.
        if m < 4 or n < m:
            return g
        k = int(rng.integers(1, 3))
        r = m - k
        Q = np.eye(n)[:, rng.permutation(n)[:m]] if extra.get("exact", rng.integers(0, 2)) else orthonormal(rng, n, m)
        free, rest = Q[:, :k], Q[:, k:]
        simplex = np.eye(r) - 1.0 / r  # rows e_i - mean: pairwise inner products -1/r
        rows = list(free.T * rng.uniform(0.5, 2.0, size=(k, 1)))
        shared = free.sum(1) * [0.0, 0.3][int(rng.integers(0, 2))]
        rows += [shared + rest @ (simplex[i] * rng.uniform(0.8, 1.25)) for i in range(r)]
        J = np.array(rows)
        return J if rng.integers(0, 2) else J[rng.permutation(m)]
    if family == "rowscaled_mild":
        # row lengths within a factor ~25 of each other (a short row that matters next to long ones)
        return g * 10.0 ** rng.uniform(-0.7, 0.7, size=(m, 1))
    raise ValueError(family)


@st.composite
def matrices(
    draw,
    m_min=1,
    m_max=8,
    n_min=1,
    n_max=10,
    families=FAMILIES,
    dtypes=("float64", "float32"),
    max_scale_exp=0,
    m_le_n=False,
):
    """Returns dict(J=list[list[float]], family, dtype, scale_exp) with J in float64 Python floats."""
    m = draw(st.integers(m_min, m_max))
    lo = max(n_min, m) if m_le_n else n_min
    n = draw(st.integers(lo, max(lo, n_max)))
    family = draw(st.sampled_from(list(families)))
    dtype = draw(st.sampled_from(list(dtypes)))
    if family == "grid":
        vals = draw(st.lists(st.integers(-4, 4), min_size=m * n, max_size=m * n))
        J = np.array(vals, dtype=np.float64).reshape(m, n) / 2.0
    else:
        extra = {}
        if family in ("svd", "lowrank"):
            extra["cond"] = 10.0 ** draw(st.floats(0.0, 3.0 if dtype == "float64" else 1.4))
            extra["rank"] = draw(st.integers(0, min(m, n)))
        if family == "conflict":
            extra["eps"] = 10.0 ** draw(st.integers(-6, 0))
            extra["delta"] = 10.0 ** draw(st.integers(-6, 0))
        if family == "stationary":
            extra["nonneg_only"] = draw(st.booleans())
        rng = np.random.default_rng(draw(SEEDS))
        J = build(family, m, n, rng, extra)
    e = 0
    if max_scale_exp:
        e = draw(st.integers(-max_scale_exp, max_scale_exp))
        J = J * 10.0**e
    return {"J": J.tolist(), "family": family, "dtype": dtype, "scale_exp": e}


@st.composite
def full_row_rank(draw, m_min=1, m_max=6, n_max=10, dtypes=("float64", "float32"), max_scale_exp=0):
    """m <= n, prescribed singular values: cond <= 1e3 (float64) / 30 (float32)."""
    m = draw(st.integers(m_min, m_max))
    n = draw(st.integers(m, max(m, n_max)))
    dtype = draw(st.sampled_from(list(dtypes)))
    cond = 10.0 ** draw(st.floats(0.0, 3.0 if dtype == "float64" else 1.47))
    rng = np.random.default_rng(draw(SEEDS))
    J = build("svd", m, n, rng, {"cond": cond})
    e = 0
    if max_scale_exp:
        e = draw(st.integers(-max_scale_exp, max_scale_exp))
        J = J * 10.0**e
    return {"J": J.tolist(), "family": "svd_full", "dtype": dtype, "scale_exp": e, "cond": cond}


def pref_vectors(m: int, allow_zero=True, decades=2):
    """Strategy: None | uniform | random positive vector (list of floats)."""

    @st.composite
    def _s(draw):
        kind = draw(st.sampled_from(["none", "none", "uniform", "random", "random", "onehotish"]))
        if kind == "none":
            return None
        if kind == "uniform":
            return [1.0 / m] * m
        rng = np.random.default_rng(draw(SEEDS))
        v = 10.0 ** rng.uniform(-decades, decades / 2, size=m)
        if kind == "onehotish" and allow_zero and m >= 2:
            v[rng.choice(m, size=int(rng.integers(1, m)), replace=False)] = 0.0
        return v.tolist()

    return _s()


def extra_cols_strategy():
    """None, or a description of many extra columns (expanded from a seed at run time, so the JSON case stays small):
    real models have thousands of parameters, most checks otherwise use n <= 10."""
    return st.sampled_from([None] * 12 + [{"k": 90, "kind": "gauss"}, {"k": 1500, "kind": "gauss"}, {"k": 3000, "kind": "zero"},
                            # beyond the usual size thresholds of "fast paths" (2^12, 2^16 columns)
                            {"k": 5000, "kind": "gauss"}, {"k": 9000, "kind": "zero"}, {"k": 70_000, "kind": "zero"},
                            {"k": 140_000, "kind": "gauss"}])


def widen(J64: np.ndarray, extra, seed: int) -> np.ndarray:
    if not extra:
        return J64
    m = J64.shape[0]
    if extra["kind"] == "zero":
        E = np.zeros((m, extra["k"]))
    else:
        scale = float(np.abs(J64).max(initial=0.0)) or 1.0
        E = np.random.default_rng(seed).standard_normal((m, extra["k"])) * scale / np.sqrt(extra["k"])
    return np.concatenate([J64, E], axis=1)


LIGHT_EXTRA = [None] * 40 + [{"k": 5000, "kind": "zero"}, {"k": 70_000, "kind": "zero"}, {"k": 5000, "kind": "gauss"}]


def widened(strategy, light: bool = False, skip=None, zero_only: bool = False):
    """Wraps a case strategy: cases carrying a matrix "J" also get "extra_cols"/"xseed" (see extra_cols_strategy);
    `case_tensor` then appends the columns. Fast paths keyed on the number of columns live in helpers shared by many
    aggregators, so every matrix-based check should see some wide matrices. light=True: one case in 14 (for checks
    that evaluate each case hundreds of times). An all-zero matrix only gets zero columns (it must stay all-zero);
    zero_only=True for checks whose cases have a designed row geometry that Gaussian columns (scaled by the largest
    entry) would swamp."""

    @st.composite
    def _s(draw):
        case = draw(strategy)
        if (isinstance(case, dict) and "J" in case and "extra_cols" not in case and len(case["J"]) and len(case["J"][0])
                and not (skip and skip(case))):
            extra = draw(st.sampled_from(LIGHT_EXTRA)) if light else draw(extra_cols_strategy())
            if len(case["J"]) > 64:
                extra = None  # hundreds of rows AND 10^5 columns: the quadratic-in-m references would take minutes
            zo = zero_only(case) if callable(zero_only) else zero_only
            if extra and extra["kind"] == "gauss" and (zo or not np.any(np.array(case["J"]))):
                extra = dict(extra, kind="zero")
            case = dict(case, extra_cols=extra, xseed=draw(st.integers(0, 2**31 - 1)))
        return case

    return _s()


def case_tensor(case, dtype):
    import torch

    J = np.array(case["J"], dtype=np.float64)
    if J.ndim == 2 and case.get("extra_cols"):
        J = widen(J, case["extra_cols"], case.get("xseed", 0))
    return torch.tensor(J, dtype=dtype).reshape(len(case["J"]), -1)


def to_tensor(case_or_J, dtype=None):
    import torch

    if isinstance(case_or_J, dict):
        J, dtype = case_or_J["J"], dtype or case_or_J["dtype"]
    else:
        J = case_or_J
    return torch.tensor(J, dtype=getattr(torch, dtype or "float64")).reshape(len(J), -1)


def eps_of(dtype: str) -> float:
    return 2.220446049250313e-16 if dtype == "float64" else 1.1920929e-07


def smax(J64: np.ndarray) -> float:
    if J64.size == 0:
        return 0.0
    return float(np.linalg.svd(J64, compute_uv=False)[0])
