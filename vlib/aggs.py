"""Aggregator construction from JSON-able specs, e.g. {"name": "UPGrad", "pref": [...], "reg_eps": 1e-4}."""

from __future__ import annotations

import torch

from torchjd import aggregation as A

WEIGHTED = (
    "UPGrad", "DualProj", "MGDA", "PCGrad", "CAGrad", "IMTLG", "AlignedMTL", "Krum", "Mean", "Sum", "Constant",
    "Random",
)
ALL = WEIGHTED + ("ConFIG", "GradDrop", "TrimmedMean")
RANDOMISED = ("PCGrad", "Random", "GradDrop")


def _vec(v, dtype):
    return None if v is None else torch.tensor(v, dtype=getattr(torch, dtype))


def other_dtype(dtype: str) -> str:
    return "float32" if dtype == "float64" else "float64"


def make(spec: dict, dtype: str):
    name = spec["name"]
    if spec.get("vec_other_dtype") and name in ("UPGrad", "DualProj", "GradDrop"):
        # the configured vector has the OTHER floating dtype than the matrices (accepted by these three aggregators)
        dtype = other_dtype(dtype)
    if name in ("UPGrad", "DualProj"):
        kw = {}
        for k in ("norm_eps", "reg_eps"):
            if k in spec:
                kw[k] = spec[k]
        pref = _vec(spec.get("pref"), dtype)
        if spec.get("pref_int") and pref is not None:
            pref = pref.round().to(torch.int64)  # an integer-valued preference vector given as an integer tensor
        return getattr(A, name)(pref_vector=pref, **kw)
    if name == "MGDA":
        kw = {k: spec[k] for k in ("epsilon", "max_iters") if k in spec}
        return A.MGDA(**kw)
    if name == "CAGrad":
        kw = {"norm_eps": spec["norm_eps"]} if "norm_eps" in spec else {}
        return A.CAGrad(c=spec["c"], **kw)
    if name in ("AlignedMTL", "ConFIG"):
        return getattr(A, name)(pref_vector=_vec(spec.get("pref"), dtype))
    if name == "Constant":
        return A.Constant(_vec(spec["weights"], dtype))
    if name == "GradDrop":
        return A.GradDrop(leak=_vec(spec.get("leak"), dtype))
    if name == "Krum":
        return A.Krum(spec["f"], spec.get("k", 1))
    if name == "TrimmedMean":
        return A.TrimmedMean(spec["b"])
    if name == "NashMTL":
        return A.NashMTL(
            n_tasks=spec["n_tasks"],
            max_norm=spec.get("max_norm", 1.0),
            update_weights_every=spec.get("every", 1),
            optim_niter=spec.get("optim_niter", 20),
        )
    return getattr(A, name)()


def min_rows(spec: dict) -> int:
    name = spec["name"]
    if name == "Krum":
        return max(spec["f"] + 3, spec.get("k", 1))
    if name == "TrimmedMean":
        return 2 * spec["b"] + 1
    return 1
