"""Reference implementations in NumPy float64: slow, exhaustive, obviously correct for m <= 8."""

from __future__ import annotations

import itertools

import numpy as np


def qp_active_set(H: np.ndarray, u: np.ndarray):
    """argmin v^T H v  s.t. v >= u, H symmetric positive definite, by enumerating all 2^m active sets.

    For every active set A the equality-constrained minimiser is computed (v_A = u_A, H_FF v_F = -H_FA u_A)
    and its KKT violation is measured in units of v: primal (u_i - v_i)+ on the free coordinates, dual
    (-lambda_i / H_ii)+ on the active ones (lambda = H v). The unique solution has violation 0; the candidate with
    the smallest violation is returned as (v, active_mask, violation).
    """
    m = len(u)
    best = None
    idx = np.arange(m)
    diag = np.diag(H)
    for mask_bits in range(1 << m):
        act = np.array([(mask_bits >> i) & 1 for i in range(m)], dtype=bool)
        v = np.where(act, u, 0.0).astype(float)
        fr = idx[~act]
        if len(fr):
            rhs = -H[np.ix_(fr, idx[act])] @ u[act] if act.any() else np.zeros(len(fr))
            try:
                v[fr] = np.linalg.solve(H[np.ix_(fr, fr)], rhs)
            except np.linalg.LinAlgError:
                continue
        if not np.isfinite(v).all():
            continue
        viol = float(np.max(np.where(act, 0.0, u - v), initial=0.0))
        lam = H @ v
        viol = max(viol, float(np.max(np.where(act, -lam / diag, 0.0), initial=0.0)))
        viol = max(viol, 0.0)
        obj = float(v @ H @ v)
        if best is None or (viol, obj) < (best[0], best[1]):
            best = (viol, obj, v, act)
    if best is None:
        raise ArithmeticError("no KKT point found")
    return best[2], best[3], best[0]


def min_norm_hull(J: np.ndarray):
    """Minimum-norm point of the convex hull of the rows of J, by support enumeration.

    For every support S the minimiser over the affine hull of the rows J[S] is computed directly on the vectors
    (least squares on the differences, no Gramian, so the conditioning is not squared); it is a candidate when its
    barycentric coordinates are non-negative. The optimum lies in the relative interior of some face, where it
    coincides with that face's affine minimiser, so the best candidate is the optimum. Returns (norm^2, alpha).
    """
    m = J.shape[0]
    best = (float("inf"), None)
    for r in range(1, m + 1):
        for S in itertools.combinations(range(m), r):
            P = J[list(S)]
            if r == 1:
                a = np.ones(1)
            else:
                D = (P[1:] - P[0]).T  # n x (r-1)
                z, *_ = np.linalg.lstsq(D, -P[0], rcond=None)
                a = np.concatenate([[1.0 - z.sum()], z])
            if (a < -1e-12).any():
                continue
            a = np.clip(a, 0.0, None)
            a = a / a.sum()
            x = a @ P
            val = float(x @ x)
            if val < best[0]:
                alpha = np.zeros(m)
                alpha[list(S)] = a
                best = (val, alpha)
    return best


def trimmed_mean(J: np.ndarray, b: int) -> np.ndarray:
    s = np.sort(J, axis=0)
    return s[b : J.shape[0] - b].mean(axis=0)


def krum_scores(J: np.ndarray, f: int) -> np.ndarray:
    m = J.shape[0]
    d = np.stack([np.sqrt(((J - J[i]) ** 2).sum(-1)) for i in range(J.shape[0])])  # (memory m n, not m^2 n)
    k = m - f - 2
    scores = np.empty(m)
    for i in range(m):
        others = np.delete(d[i], i)
        scores[i] = np.sort(others)[:k].sum()
    return scores


def pcgrad(J: np.ndarray, orders: list[list[int]]) -> np.ndarray:
    """Algorithm 1 of PCGrad for given projection orders (orders[i] = order in which row i meets
    the other rows; entries equal to i are skipped). Projects the *already projected* row."""
    m = J.shape[0]
    out = np.zeros(J.shape[1])
    for i in range(m):
        g = J[i].copy()
        for j in orders[i]:
            if j == i:
                continue
            ip = g @ J[j]
            if ip < 0:
                g = g - ip / (J[j] @ J[j]) * J[j]
        out += g
    return out


def pcgrad_margin(J: np.ndarray, orders: list[list[int]]) -> float:
    """Smallest relative |inner product| met by the branches of `pcgrad` (decision margin)."""
    m = J.shape[0]
    margin = float("inf")
    for i in range(m):
        g = J[i].copy()
        for j in orders[i]:
            if j == i:
                continue
            ip = g @ J[j]
            den = np.linalg.norm(g) * np.linalg.norm(J[j])
            if den > 0:  # a zero vector gives an exactly zero inner product: the branch is not ambiguous
                margin = min(margin, abs(ip) / den)
            if ip < 0:
                g = g - ip / (J[j] @ J[j]) * J[j]
    return margin


def mgda_frank_wolfe(J: np.ndarray, epsilon: float, max_iters: int):
    """Float64 transcription of Algorithm 2 (Sener & Koltun) as documented; returns (alpha, margin)
    where margin is the smallest relative decision margin met (argmin gap, branch tests)."""
    G = J @ J.T
    m = G.shape[0]
    alpha = np.ones(m) / m
    gs = max(float(np.abs(G).max(initial=0.0)), 1e-300)
    margin = float("inf")
    for _ in range(max_iters):
        ga = G @ alpha
        t = int(np.argmin(ga))
        if m > 1:
            srt = np.sort(ga)
            margin = min(margin, (srt[1] - srt[0]) / gs)
        a = alpha @ G[:, t]
        b = alpha @ ga
        c = G[t, t]
        margin = min(margin, abs(c - a) / gs, abs(b - a) / gs)
        if c <= a:
            gamma = 1.0
        elif b <= a:
            gamma = 0.0
        else:
            gamma = (b - a) / (b + c - 2 * a)
        e = np.zeros(m)
        e[t] = 1.0
        alpha = (1 - gamma) * alpha + gamma * e
        margin = min(margin, abs(gamma - epsilon))
        if gamma < epsilon:
            break
    return alpha, margin


def span_residual(J: np.ndarray, v: np.ndarray) -> float:
    """Norm of the component of v orthogonal to the row space of J."""
    if J.size == 0 or not np.any(J):
        return float(np.linalg.norm(v))
    coef, *_ = np.linalg.lstsq(J.T, v, rcond=None)
    return float(np.linalg.norm(J.T @ coef - v))
