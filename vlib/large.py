"""Large-size cases for backward / mtl_backward (Jacobians with 10^5 .. 10^7 entries): closed-form Jacobians instead of
the dual-number oracle (whose cost is quadratic in the number of input scalars).

backward:      y = tanh(sum_b A_b w_b)                    J = diag(1 - y^2) [A_1 | A_2 | ...]
mtl_backward:  F = sum_b A_b w_b,  loss_i = t_i * <c_i, tanh(F)>     row i = t_i (c_i * (1 - tanh(F)^2)) [A_1 | ...]
                                                                      dloss_i/dt_i = <c_i, tanh(F)>
All data is expanded from case["seed"] with a NumPy generator, so a replay file stays a few hundred bytes.
"""

from __future__ import annotations

import numpy as np
import torch
from hypothesis import strategies as st

from vlib import aggs, relations as rel
from vlib.matrices import eps_of
from vlib.probes import Recording

TOTALS = (70_000, 140_000, 300_000, 600_000, 1_100_000, 2_200_000)


@st.composite
def cases(draw, api: str, tall: bool = False, retain_flag: bool = False):
    """tall=False: 2-5 rows, 10^5 .. 2x10^6 columns.  tall=True: hundreds of rows (more than fit in one block of a
    batched differentiation), a few dozen columns."""
    rng = np.random.default_rng(draw(st.integers(0, 2**32 - 1)))
    m = int(rng.integers(2, 6))
    total = int(TOTALS[int(rng.integers(0, len(TOTALS)))] * (1.0 + 0.1 * rng.random()))
    if tall:
        m = [70, 130, 257, 300, 520, 1030][int(rng.integers(0, 6))]
        total = int(rng.integers(3, 40))
    nb = int(rng.integers(2, 4))
    cuts = np.sort(rng.integers(1, total, size=nb - 1))
    sizes = np.diff(np.concatenate([[0], cuts, [total]])).astype(int).tolist()
    if rng.integers(0, 3) == 0:
        sizes = [total // nb] * nb  # equal sizes: a swap of two blocks keeps every shape valid
    name = ["UPGrad", "UPGrad", "MGDA", "Constant", "DualProj", "Mean"][int(rng.integers(0, 6))]
    if tall:  # (the quadratic-programme aggregators cost O(m^4) here)
        name = ["Constant", "Mean", "Sum", "TrimmedMean"][int(rng.integers(0, 4))]
    spec = {"name": name}
    if name == "TrimmedMean":
        spec["b"] = int(rng.integers(0, 4))
    if name == "Constant":
        spec["weights"] = [float(v) + 0.125 * i for i, v in enumerate(rng.integers(-3, 4, size=m))]
    more = {"retain": bool(rng.integers(0, 2))} if retain_flag else {}
    return {**more, "kind": "large", "api": api, "seed": int(rng.integers(0, 2**31)), "m": m, "sizes": sizes, "agg": spec,
            "dtype": ["float32", "float64"][int(rng.integers(0, 2))],
            "chunk": ([None, None, m, m - 1, 256, 300][int(rng.integers(0, 6))] if tall else [None, 1, 2][int(rng.integers(0, 3))]),
            "unwrapped": bool(rng.integers(0, 2)), "d": int(rng.integers(2, 5)), "pre": bool(rng.integers(0, 2))}


def _data(case):
    rng = np.random.default_rng(case["seed"])
    rows = case["m"] if case["api"] == "backward" else case["d"]
    n = sum(case["sizes"])
    # rows share a common component and conflict pairwise to a varying degree: the aggregation is matrix-dependent
    A = rng.standard_normal((rows, n)) / np.sqrt(n)
    A += rng.standard_normal((rows, 1)) * rng.standard_normal((1, n)) / np.sqrt(n)
    W = rng.standard_normal(n) * 0.5
    return A, W, rng


def run(case, out):
    from torchjd import backward, mtl_backward

    dtype, td = case["dtype"], getattr(torch, case["dtype"])
    A, W, rng = _data(case)
    sizes, m = case["sizes"], case["m"]
    offs = np.concatenate([[0], np.cumsum(sizes)]).astype(int)
    As = [torch.tensor(A[:, offs[b]:offs[b + 1]], dtype=td) for b in range(len(sizes))]
    ws = [torch.tensor(W[offs[b]:offs[b + 1]], dtype=td, requires_grad=True) for b in range(len(sizes))]
    before = []
    for w in ws:
        if case["pre"]:
            w.grad = torch.full_like(w, 0.5)
        before.append(None if w.grad is None else w.grad.clone())
    rec = Recording(aggs.make(case["agg"], dtype))
    agg = rec.inner if case["unwrapped"] else rec
    out.cls("large:" + case["api"], "large:" + case["agg"]["name"], f"large:entries>=2^{int(np.log2(m * offs[-1]))}",
            "large:unwrapped" if case["unwrapped"] else "large:recorded")
    pre = sum(a @ w for a, w in zip(As, ws))
    # rounding of the n-term dot products behind `pre` (statistical growth sqrt(n), factor 16): everything downstream of
    # tanh(pre) inherits it (a thorough run met 290 eps on a task gradient with n = 2.4e6)
    tolF = 16 * eps_of(dtype) * np.sqrt(offs[-1]) * float(np.linalg.norm(A, axis=1).max()) * float(np.sqrt(np.mean(W**2)))
    kw = {"retain_graph": case["retain"]} if "retain" in case else {}
    if case["api"] == "backward":
        y = torch.tanh(pre)
        y64 = np.tanh(A @ W)
        J = (1.0 - y64**2)[:, None] * A
        try:
            backward([y[: m // 2], y[m // 2:]], agg, inputs=ws, parallel_chunk_size=case["chunk"], **kw)
        except Exception as e:  # noqa: BLE001
            out.check(False, f"backward-raises:{type(e).__name__}", str(e)[:300])
            return out
    else:
        C = rng.standard_normal((m, case["d"]))
        T = rng.uniform(0.5, 2.0, size=m) * rng.choice([-1.0, 1.0], size=m)
        ts = [torch.tensor(float(t), dtype=td, requires_grad=True) for t in T]
        F = pre
        f64 = np.tanh(A @ W)
        losses = [ts[i] * (torch.tensor(C[i], dtype=td) * torch.tanh(F)).sum() for i in range(m)]
        J = (T[:, None] * C * (1.0 - f64**2)[None, :]) @ A
        try:
            mtl_backward(losses, F, agg, tasks_params=[[t] for t in ts], shared_params=ws, parallel_chunk_size=case["chunk"], **kw)
        except Exception as e:  # noqa: BLE001
            out.check(False, f"mtl_backward-raises:{type(e).__name__}", str(e)[:300])
            return out
        for i in range(m):
            want = float(C[i] @ f64)
            if out.check(ts[i].grad is not None, "large:task-grad-missing", f"task {i}"):
                out.within(abs(float(ts[i].grad) - want), (64 * eps_of(dtype) + tolF) * (np.abs(C[i]).sum() + 1), "large:task-gradient",
                           f"task {i}: {float(ts[i].grad)} vs {want}")
    if "retain" in case:
        # the graph (tanh saves its output) must afterwards be in the state torch.autograd.backward would leave it in
        out.cls("large:retain_graph=" + str(case["retain"]))
        probe = y if case["api"] == "backward" else F
        try:
            torch.autograd.grad(probe.sum() if case["api"] == "backward" else torch.tanh(probe).sum(), ws[0], retain_graph=True)
            usable = True
        except RuntimeError as e:
            usable = False
            out.check("second time" in str(e) or "freed" in str(e), "large:unexpected-error-after-call", str(e)[:200])
        if case["api"] == "backward":
            out.check(usable == case["retain"], "large:graph-state-differs-from-autograd",
                      f"retain_graph={case['retain']} but a further differentiation through the graph {'succeeds' if usable else 'fails'}")
    jmax = float(np.abs(J).max())
    tolJ = 256 * eps_of(dtype) * max(jmax, float(np.abs(A).max()) * (float(np.abs(C).sum(1).max() * np.abs(T).max()) if case["api"] != "backward" else 1.0))
    tolJ += 2 * tolF * jmax
    incs = []
    for w, b in zip(ws, before):
        if not out.check(w.grad is not None and w.grad.shape == w.shape, "large:grad-missing", "an input has no .grad of its shape"):
            return out
        incs.append((w.grad - (b if b is not None else 0)).detach())
    inc = torch.cat(incs).double().numpy()
    if not case["unwrapped"]:
        if not out.check(len(rec.calls) == 1, "large:aggregator-call-count", f"{len(rec.calls)} calls for one Jacobian of shape {J.shape}"):
            return out
        M, r = rec.calls[0]
        if not out.check(tuple(M.shape) == J.shape and tuple(r.shape) == (J.shape[1],), "large:matrix-shape", f"{tuple(M.shape)} vs {J.shape}"):
            return out
        # the blocks may be laid out in any order inside the matrix: find it by block sizes (brute force over permutations)
        import itertools
        M64 = M.double().numpy()
        best = None
        for perm in itertools.permutations(range(len(sizes))):
            cols = np.concatenate([np.arange(offs[b], offs[b + 1]) for b in perm])
            err = float(np.abs(M64 - J[:, cols]).max())
            if best is None or err < best[1]:
                best = (cols, err)
        if not out.within(best[1], tolJ, "large:jacobian-matrix", f"no block order makes the matrix seen by the aggregator equal to the "
                          f"closed-form Jacobian (best max abs difference {best[1]:.3e}, tol {tolJ:.3e}); shape {J.shape}"):
            return out
        found = (None, best[0])
        back = torch.empty_like(r)
        back[torch.as_tensor(found[1])] = r
        bad = [b for b, (w, g0) in enumerate(zip(ws, before))
               if not torch.equal(w.grad, back[offs[b]:offs[b + 1]] if g0 is None else g0 + back[offs[b]:offs[b + 1]])]
        out.check(not bad, "large:deposit", f"inputs {bad}: the .grad is not (previous .grad +) its own slice of the returned vector")
    else:
        Jt = torch.tensor(J, dtype=td)
        x = agg(Jt).double().numpy()
        wn = rel.weights_norm(agg, Jt) if case["agg"]["name"] != "TrimmedMean" else 1.0
        tol = 4 * rel.base_tolerance(case["agg"], dtype, J, wn, float(np.linalg.norm(x))) + tolJ * max(1.0, wn) * m
        out.within(float(np.abs(inc - x).max()), tol, "large:differs-from-aggregated-closed-form-jacobian",
                   f"max abs difference {float(np.abs(inc - x).max()):.3e} on {J.shape}, {case['agg']}")
    out.nontrivial = True
    return out
