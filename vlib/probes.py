"""Observation tools built on public API only: recording / position-coding aggregators, state snapshots."""

from __future__ import annotations

import torch

from torchjd.aggregation import Aggregator


class PositionCoding(Aggregator):
    """Returns (1, 2, ..., n) * scale: the slice an input received is directly readable from its .grad."""

    def __init__(self, scale: float = 1.0):
        super().__init__()
        self.scale = scale

    def forward(self, matrix):
        return torch.arange(1, matrix.shape[1] + 1, dtype=matrix.dtype) * self.scale


class Recording(Aggregator):
    """Wraps an aggregator; stores every matrix it receives and every vector it returns."""

    def __init__(self, inner: Aggregator):
        super().__init__()
        self.inner = inner
        self.calls: list[tuple[torch.Tensor, torch.Tensor]] = []
        self.raw_matrices: list[torch.Tensor] = []
        self.n_forward = 0
        # The recording happens in a forward hook: `aggregator(J)` is an nn.Module call, hooks registered on the
        # aggregator are part of it (a pipeline calling `.forward()` directly would skip them and record nothing).
        self.register_forward_hook(self._record)

    def _record(self, _module, args, output):
        self.calls.append((args[0].detach().clone(), output.detach().clone()))

    def forward(self, matrix):
        self.n_forward += 1
        self.raw_matrices.append(matrix)
        return self.inner(matrix)


def snapshot(tensors: dict) -> dict:
    """name -> (value clone, grad clone | None, grad data_ptr | None) for bitwise comparison around a call."""
    snap = {}
    for name, t in tensors.items():
        g = t.grad if (t.is_leaf or t.retains_grad) else None
        snap[name] = (
            t.detach().clone(),
            None if g is None else g.detach().clone(),
            None if g is None else g.data_ptr(),
        )
    return snap


def diff_snapshots(a: dict, b: dict, check_ptr: bool = True) -> list[str]:
    """Names (with a reason) whose value, grad is-None-ness, grad content or grad storage changed."""
    changed = []
    for name in a:
        va, ga, pa = a[name]
        vb, gb, pb = b[name]
        if not _same(va, vb):
            changed.append(f"{name}:value")
        if (ga is None) != (gb is None):
            changed.append(f"{name}:grad-" + ("created" if ga is None else "removed"))
        elif ga is not None:
            if not _same(ga, gb):
                changed.append(f"{name}:grad-content")
            elif check_ptr and pa != pb:
                changed.append(f"{name}:grad-storage")
    return changed


def _same(x: torch.Tensor, y: torch.Tensor) -> bool:
    """Bitwise equality (NaN-safe, distinguishes nothing else than values; shapes must match)."""
    if x.shape != y.shape or x.dtype != y.dtype:
        return False
    return bool(torch.equal(x, y)) or bool(((x == y) | (x.isnan() & y.isnan())).all())
