"""Oracles shared by the autojac properties: expected Jacobian matrices and the deposit check of .grad."""

from __future__ import annotations

import itertools

import numpy as np
import torch
from hypothesis import strategies as st

from vlib import aggs, programs as P
from vlib.probes import PositionCoding, Recording

DERIV_TOL = {"float64": 1e-9, "float32": 3e-4}


def jd_aggregator(rng, m: int, order_sensitive_bias: int = 1, exclude=()) -> dict:
    """Aggregator spec admissible for m rows, expanded from a Hypothesis-drawn seed (rng).
    'poscode' = position coding (the slice each input received is directly readable from its .grad)."""
    names = ["poscode", "poscode", "Mean", "Sum", "UPGrad", "DualProj", "TrimmedMean"] + ["Constant"] * (1 + order_sensitive_bias)
    if m >= 3:
        names += ["Krum"] * order_sensitive_bias
    names = [n for n in names if n not in exclude]
    name = names[int(rng.integers(0, len(names)))]
    spec = {"name": name}
    if name == "poscode":
        spec["scale"] = [1.0, 0.5, 3.0][int(rng.integers(0, 3))]
    if name == "Constant":
        vals = rng.integers(-6, 7, size=m)
        spec["weights"] = [float(v) + 0.125 * i for i, v in enumerate(vals)]  # distinct, incl. negative / ~zero
    if name in ("UPGrad", "DualProj") and rng.integers(0, 2):
        spec["pref"] = (rng.integers(1, 10, size=m) / 4.0).tolist()
    if name == "Krum":
        spec["f"] = int(rng.integers(0, m - 2))
        spec["k"] = int(rng.integers(1, m + 1))
    if name == "TrimmedMean":
        spec["b"] = int(rng.integers(0, (m - 1) // 2 + 1))
    return spec


def make_recording(spec: dict, dtype: str) -> Recording:
    if spec["name"] == "poscode":
        return Recording(PositionCoding(spec.get("scale", 1.0)))
    return Recording(aggs.make(spec, dtype))


def oracle_rows(dual: P.DualResult, prog: dict, tensor_refs, leaf_idxs, precut=False) -> dict[int, np.ndarray]:
    """leaf index -> Jacobian block (rows = scalars of the tensors, flattened, in listing order)."""
    return {
        li: np.concatenate([dual.jac(ref, li, prog, precut=precut) for ref in tensor_refs], axis=0)
        for li in leaf_idxs
    }


def check_deposit(out, label, expected_blocks: dict[int, np.ndarray], leaves: list[torch.Tensor],
                  grads_before: dict[int, torch.Tensor | None], rec_call, dtype: str, scale: float) -> bool:
    """The aggregator must have seen, for SOME ordering of the inputs, the column-wise concatenation of the expected
    blocks (tolerance on derivative values only), and each input's .grad must have increased bitwise by its own
    contiguous slice of the returned vector, reshaped row-major.

    expected_blocks: leaf index -> (m x numel) float64 oracle block. rec_call = (matrix seen, vector returned).
    """
    M, r = rec_call
    idxs = list(expected_blocks)
    m = next(iter(expected_blocks.values())).shape[0] if idxs else 0
    ncols = sum(b.shape[1] for b in expected_blocks.values())
    if not out.check(tuple(M.shape) == (m, ncols), f"{label}:matrix-shape",
                     f"aggregator saw a matrix of shape {tuple(M.shape)}, expected ({m}, {ncols})"):
        return False
    if not out.check(tuple(r.shape) == (ncols,), f"{label}:vector-shape", f"{tuple(r.shape)}"):
        return False
    M64 = M.double().numpy()
    tol = DERIV_TOL[dtype] * max(1.0, scale)
    after = {li: leaves[li].grad for li in idxs}
    best = None  # (n_bad_blocks, n_bad_slices, worst_err, perm)
    perms = itertools.permutations(idxs) if len(idxs) <= 5 else [tuple(idxs)]
    for perm in perms:
        off = 0
        bad_blocks = bad_slices = 0
        worst = 0.0
        for li in perm:
            k = expected_blocks[li].shape[1]
            err = float(np.abs(M64[:, off : off + k] - expected_blocks[li]).max(initial=0.0))
            worst = max(worst, err)
            if not err <= tol:
                bad_blocks += 1
            sl = r[off : off + k].view(leaves[li].shape)
            old = grads_before[li]
            want = sl if old is None else old + sl
            g = after[li]
            if g is None or g.shape != want.shape or not torch.equal(g, want):
                bad_slices += 1
            off += k
        cand = (bad_blocks + bad_slices, bad_blocks, bad_slices, worst, perm)
        if best is None or cand < best:
            best = cand
        if bad_blocks == 0 and bad_slices == 0:
            out.metric(f"ratio:{label}:jacobian-values", worst / tol)
            return True
    _, bad_blocks, bad_slices, worst, perm = best
    if bad_blocks:
        out.check(False, f"{label}:jacobian-matrix",
                  f"no ordering of the inputs makes the matrix seen by the aggregator equal to the oracle Jacobian "
                  f"(best ordering {list(perm)}: {bad_blocks} wrong column blocks, worst error {worst:.3e}, tol {tol:.3e}); "
                  f"seen {M64.tolist()}")
    if bad_slices:
        got = {li: (None if after[li] is None else after[li].tolist()) for li in idxs}
        out.check(False, f"{label}:grad-slices",
                  f"the .grad increments are not the per-input slices of the aggregated vector {r.tolist()} "
                  f"(best ordering {list(perm)}: {bad_slices} inputs wrong); .grad after = {got}")
    return False


def set_pre_grads(leaves, pre: dict) -> dict:
    """pre: leaf index (as str or int) -> list of values. Returns leaf index -> clone of the grad set (or None)."""
    before = {}
    for i, leaf in enumerate(leaves):
        vals = pre.get(str(i), pre.get(i))
        if vals is not None and leaf.requires_grad:
            leaf.grad = torch.tensor(vals, dtype=leaf.dtype).reshape(leaf.shape)
            before[i] = leaf.grad.clone()
        else:
            before[i] = None
    return before


def pre_grads(rng, prog: dict, p_some=0.5) -> dict:
    pre = {}
    if rng.random() < p_some:
        for i, lf in enumerate(prog["leaves"]):
            if lf["rg"] and rng.integers(0, 2):
                pre[str(i)] = (rng.integers(-6, 7, size=P.numel(lf["shape"])) / 2.0).tolist()
    return pre
