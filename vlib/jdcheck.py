"""Oracles shared by the autojac properties: expected Jacobian matrices and the deposit check of .grad."""

from __future__ import annotations

import numpy as np
import torch
from hypothesis import strategies as st

from vlib import aggs, programs as P
from vlib.probes import PositionCoding, Recording

DERIV_TOL = {"float64": 1e-9, "float32": 3e-4}
SCALE_MAX = {"float64": 1e6, "float32": 1e3}


def scale_ok(dtype: str, scale: float) -> bool:
    """Programs whose values or tangents exceed 1e6 (float64) / 1e3 (float32) are outside the tested domain: a float32
    evaluation of e.g. sin(exp(exp(x))) with an argument of 1600 loses 1e-4 of the angle, and its derivative (scaled by
    the chain factor) is then off by far more than any fixed relative tolerance - conditioning, not a defect."""
    return bool(scale < SCALE_MAX[dtype])


def deriv_tol(dtype: str, scale: float) -> float:
    """Tolerance on derivative values: linear term (rounding of O(scale) quantities) plus a quadratic term (an argument
    of size `scale` rounded to eps, multiplied by a chain factor of size `scale`)."""
    sc = max(1.0, scale)
    eps = 2.220446049250313e-16 if dtype == "float64" else 1.1920929e-07
    return DERIV_TOL[dtype] * sc + 4 * eps * sc * sc


def jd_aggregator(rng, m: int, order_sensitive_bias: int = 1, exclude=()) -> dict:
    """Aggregator spec admissible for m rows, expanded from a Hypothesis-drawn seed (rng).
    'poscode' = position coding (the slice each input received is directly readable from its .grad)."""
    names = ["poscode", "poscode", "Mean", "Sum", "UPGrad", "DualProj", "TrimmedMean"] + ["Constant"] * (1 + order_sensitive_bias)
    if m >= 3:
        names += ["Krum"] * order_sensitive_bias
    names = [n for n in names if n not in exclude]
    name = names[int(rng.integers(0, len(names)))]
    spec = {"name": name}
    if name == "poscode":
        spec["scale"] = [1.0, 0.5, 3.0][int(rng.integers(0, 3))]
    if name == "Constant":
        vals = rng.integers(-6, 7, size=m)
        spec["weights"] = [float(v) + 0.125 * i for i, v in enumerate(vals)]  # distinct, incl. negative / ~zero
    if name in ("UPGrad", "DualProj") and rng.integers(0, 2):
        spec["pref"] = (rng.integers(1, 10, size=m) / 4.0).tolist()
    if name == "Krum":
        spec["f"] = int(rng.integers(0, m - 2))
        spec["k"] = int(rng.integers(1, m + 1))
    if name == "TrimmedMean":
        spec["b"] = int(rng.integers(0, (m - 1) // 2 + 1))
    return spec


def make_recording(spec: dict, dtype: str) -> Recording:
    if spec["name"] == "poscode":
        return Recording(PositionCoding(spec.get("scale", 1.0)))
    return Recording(aggs.make(spec, dtype))


def oracle_rows(dual: P.DualResult, prog: dict, tensor_refs, leaf_idxs, precut=False) -> dict[int, np.ndarray]:
    """leaf index -> Jacobian block (rows = scalars of the tensors, flattened, in listing order)."""
    return {
        li: np.concatenate([dual.jac(ref, li, prog, precut=precut) for ref in tensor_refs], axis=0)
        for li in leaf_idxs
    }


def check_deposit(out, label, expected_blocks: dict[int, np.ndarray], leaves: list[torch.Tensor],
                  grads_before: dict[int, torch.Tensor | None], rec_call, dtype: str, scale: float) -> bool:
    """The aggregator must have seen, for SOME ordering of the inputs, the column-wise concatenation of the expected
    blocks (tolerance on derivative values only), and each input's .grad must have increased bitwise by its own
    contiguous slice of the returned vector, reshaped row-major.

    expected_blocks: leaf index -> (m x numel) float64 oracle block. rec_call = (matrix seen, vector returned).
    """
    M, r = rec_call
    idxs = list(expected_blocks)
    m = next(iter(expected_blocks.values())).shape[0] if idxs else 0
    ncols = sum(b.shape[1] for b in expected_blocks.values())
    if not out.check(tuple(M.shape) == (m, ncols), f"{label}:matrix-shape",
                     f"aggregator saw a matrix of shape {tuple(M.shape)}, expected ({m}, {ncols})"):
        return False
    if not out.check(tuple(r.shape) == (ncols,), f"{label}:vector-shape", f"{tuple(r.shape)}"):
        return False
    M64 = M.double().numpy()
    tol = deriv_tol(dtype, scale)
    after = {li: leaves[li].grad for li in idxs}

    def block_err(li, off):
        k = expected_blocks[li].shape[1]
        if off + k > ncols:
            return float("inf")
        return float(np.abs(M64[:, off : off + k] - expected_blocks[li]).max(initial=0.0))

    def slice_ok(li, off):
        k = expected_blocks[li].shape[1]
        sl = r[off : off + k].view(leaves[li].shape)
        old = grads_before[li]
        want = sl if old is None else old + sl
        g = after[li]
        return g is not None and g.shape == want.shape and bool(torch.equal(g, want))

    # depth-first search for an ordering of the inputs under which every column block AND every slice matches. The offset
    # is a function of the set of inputs still to place, so a set that failed once fails always: memoising the failed sets
    # makes the search complete in at most 2^n * n steps (many interchangeable all-zero blocks made the plain search
    # exponential in n!; thorough seed 7 ran out of budget on a correct deposit). A budget hit is inconclusive, never a
    # violation.
    worst_seen = [0.0]
    budget = [2000000]
    exhausted = [False]

    def search(pred, off, remaining, dead):
        if not remaining:
            return []
        key = frozenset(remaining)
        if key in dead:
            return None
        for li in remaining:
            budget[0] -= 1
            if budget[0] < 0:
                exhausted[0] = True
                return None
            err = pred(li, off)
            if err is not None:
                rest = search(pred, off + expected_blocks[li].shape[1], [x for x in remaining if x != li], dead)
                if rest is not None:
                    worst_seen[0] = max(worst_seen[0], err)
                    return [li] + rest
                if exhausted[0]:
                    return None
        dead.add(key)
        return None

    def both(li, off):
        err = block_err(li, off)
        return err if err <= tol and slice_ok(li, off) else None

    def dfs(off, remaining):
        return search(both, off, remaining, set())

    order = dfs(0, idxs)
    if order is not None:
        out.metric(f"ratio:{label}:jacobian-values", worst_seen[0] / tol)
        return True

    if exhausted[0]:
        out.cls(f"{label}:ordering-search-inconclusive")
        return True

    # diagnosis: is there an ordering matching the matrix alone? the slices alone?
    def only_m(li, off):
        err = block_err(li, off)
        return err if err <= tol else None

    budget[0] = 2000000
    order_m = search(only_m, 0, idxs, set())
    budget[0] = 2000000
    order_s = search(lambda li, off: 0.0 if slice_ok(li, off) else None, 0, idxs, set())
    if exhausted[0]:
        order_m = order_m if order_m is not None else "search inconclusive"
    if order_m is None:
        out.check(False, f"{label}:jacobian-matrix",
                  f"no ordering of the inputs {idxs} makes the matrix seen by the aggregator equal to the oracle Jacobian "
                  f"(tol {tol:.3e}); seen {M64.tolist()}; expected blocks {({li: b.tolist() for li, b in expected_blocks.items()})}")
    if order_s is None or order_m is not None:
        got = {li: (None if after[li] is None else after[li].tolist()) for li in idxs}
        out.check(False, f"{label}:grad-slices",
                  f"the .grad increments are not the per-input slices of the aggregated vector {r.tolist()} under any input "
                  f"ordering consistent with the matrix (matrix ordering {order_m}, slice ordering {order_s}); "
                  f".grad after = {got}; before = {({li: (None if grads_before[li] is None else grads_before[li].tolist()) for li in idxs})}")
    return False


def set_pre_grads(leaves, pre: dict) -> dict:
    """pre: leaf index (as str or int) -> list of values. Returns leaf index -> clone of the grad set (or None)."""
    before = {}
    for i, leaf in enumerate(leaves):
        vals = pre.get(str(i), pre.get(i))
        if vals is not None and leaf.requires_grad:
            base = torch.tensor(vals, dtype=leaf.dtype).reshape(leaf.shape)
            if str(i) in pre.get("_strided", ()):
                # a non-contiguous pre-existing .grad: column-major (what autograd leaves for a transposed parameter; cannot
                # be flattened without a copy) when it has two dimensions larger than 1, else one lane of a wider buffer
                if sum(d > 1 for d in base.shape) >= 2 and i % 2 == 0:
                    rev = list(range(base.ndim))[::-1]
                    base = base.permute(rev).contiguous().permute(rev)
                else:
                    base = torch.stack([base, base + 1.0], dim=-1)[..., 0]
            leaf.grad = base
            before[i] = leaf.grad.clone()
        else:
            before[i] = None
    return before


def pre_grads(rng, prog: dict, p_some=0.5) -> dict:
    pre = {}
    if rng.random() < p_some:
        for i, lf in enumerate(prog["leaves"]):
            if lf["rg"] and rng.integers(0, 2):
                pre[str(i)] = (rng.integers(-6, 7, size=P.numel(lf["shape"])) / 2.0).tolist()
                if rng.integers(0, 3) == 0:
                    pre.setdefault("_strided", []).append(str(i))
    return pre
