"""Verification machinery for TorchJD/torchjd: property-based testing and fuzzing (see DESIGN.md)."""
