"""
Autograd-program IR, Hypothesis strategy, torch executor and an independent NumPy dual-number oracle.

IR (JSON-able):
  {"dtype": "float64",
   "leaves": [{"shape": [2, 3], "rg": true, "vals": [...row-major floats...]}, ...],
   "nodes":  [{"op": "mul", "args": [ref, ref], ...params}, ...],       # SSA, args refer to earlier values
   "outputs": [ref, ...]}
  ref = ["l", i] (leaf i) | ["n", j] (node j) | ["n", j, k] (k-th result of the multi-output node j)

The oracle pushes (value, tangent) pairs through the same ops in float64; the tangent of a value of shape S has
shape S + (N,), one slot per leaf scalar (plus, for trunk/heads programs, one slot per feature scalar when the
features are *cut*, i.e. treated as independent inputs of the heads). No torch autograd is involved.
"""

from __future__ import annotations

import math

import numpy as np
from hypothesis import strategies as st

UNARY = ("sin", "tanh", "exp", "square", "neg", "scale")
BINARY = ("add", "sub", "mul")
REDUCE = ("sum", "mean", "sumall")
SHAPE = ("reshape", "permute", "unsqueeze", "squeeze", "expand", "select", "narrow", "cat", "stack")
MULTI = ("unbind", "split")
MAX_NUMEL = 24


def numel(shape) -> int:
    return int(math.prod(shape))


# ------------------------------------------------------------------------------------------------
# shape inference (shared by the generator and both executors)
# ------------------------------------------------------------------------------------------------


def result_shapes(node: dict, arg_shapes: list[tuple]) -> list[tuple]:
    """Shapes of the results of `node` (one entry, or several for multi-output ops)."""
    op = node["op"]
    a = tuple(arg_shapes[0])
    if op in UNARY or op in ("detach", "novmap", "userfn"):
        return [a]
    if op in BINARY:
        return [a]
    if op == "sumall":
        return [()]
    if op in ("sum", "mean"):
        d = node["dim"]
        return [a[:d] + a[d + 1 :]]
    if op == "reshape":
        return [tuple(node["shape"])]
    if op == "permute":
        return [tuple(a[i] for i in node["perm"])]
    if op == "unsqueeze":
        d = node["dim"]
        return [a[:d] + (1,) + a[d:]]
    if op == "squeeze":
        d = node["dim"]
        return [a[:d] + a[d + 1 :]]
    if op == "expand":
        d = node["dim"]
        return [a[:d] + (node["size"],) + a[d + 1 :]]
    if op == "select":
        d = node["dim"]
        return [a[:d] + a[d + 1 :]]
    if op == "narrow":
        d = node["dim"]
        return [a[:d] + (node["length"],) + a[d + 1 :]]
    if op == "cat":
        d = node["dim"]
        b = tuple(arg_shapes[1])
        return [a[:d] + (a[d] + b[d],) + a[d + 1 :]]
    if op == "stack":
        d = node["dim"]
        return [a[:d] + (2,) + a[d:]]
    if op == "unbind":
        d = node["dim"]
        return [a[:d] + a[d + 1 :]] * a[d]
    if op == "split":
        d = node["dim"]
        return [a[:d] + (sz,) + a[d + 1 :] for sz in node["sizes"]]
    raise ValueError(op)


# ------------------------------------------------------------------------------------------------
# NumPy dual-number executor
# ------------------------------------------------------------------------------------------------


class DualResult:
    def __init__(self):
        self.leaf_offsets: list[int] = []
        self.n_leaf_slots = 0
        self.cut_offsets: dict[tuple, int] = {}
        self.n_slots = 0
        self.values: dict[tuple, tuple[np.ndarray, np.ndarray]] = {}
        self.precut: dict[tuple, tuple[np.ndarray, np.ndarray]] = {}
        self.max_abs = 0.0

    def get(self, ref):
        return self.values[tuple(ref)]

    def jac(self, ref, leaf: int, prog: dict, precut=False) -> np.ndarray:
        """Jacobian block d(value at ref, flattened row-major) / d(leaf, flattened row-major)."""
        v, t = (self.precut if precut and tuple(ref) in self.precut else self.values)[tuple(ref)]
        o = self.leaf_offsets[leaf]
        k = numel(prog["leaves"][leaf]["shape"])
        return t.reshape(-1, self.n_slots)[:, o : o + k]

    def jac_cut(self, ref, cut_ref) -> np.ndarray:
        """d(value at ref) / d(cut feature), the feature being treated as an independent input."""
        v, t = self.values[tuple(ref)]
        o = self.cut_offsets[tuple(cut_ref)]
        k = self.values[tuple(cut_ref)][0].size
        return t.reshape(-1, self.n_slots)[:, o : o + k]


def _coerce_dual(v, t, mode, node, target_shape, N):
    if mode == "same":
        return v, t
    if mode == "sumall":
        sv = v.sum()
        stt = t.reshape(-1, N).sum(axis=0)
        return np.broadcast_to(sv, target_shape), np.broadcast_to(stt, tuple(target_shape) + (N,))
    if mode == "reshape":
        return v.reshape(target_shape), t.reshape(tuple(target_shape) + (N,))
    if mode == "dense":
        C = np.array(node["C"], dtype=np.float64)
        return (C @ v.reshape(-1)).reshape(target_shape), (C @ t.reshape(-1, N)).reshape(tuple(target_shape) + (N,))
    raise ValueError(mode)


def run_dual(prog: dict, cuts=(), leaf_values=None) -> DualResult:
    """Evaluates the program in float64 dual numbers. `cuts` = refs of nodes whose tangent is replaced, after
    evaluation, by an identity seed in dedicated slots (features as independent inputs of what follows)."""
    res = DualResult()
    import torch

    tdt = getattr(torch, prog["dtype"])
    off = 0
    leaf_arrays = []
    for i, lf in enumerate(prog["leaves"]):
        res.leaf_offsets.append(off)
        off += numel(lf["shape"])
        if leaf_values is not None:
            arr = np.asarray(leaf_values[i], dtype=np.float64).reshape(lf["shape"])
        else:
            # round to the dtype exactly as the torch executor does
            arr = torch.tensor(lf["vals"], dtype=tdt).double().numpy().reshape(lf["shape"])
        leaf_arrays.append(arr)
    res.n_leaf_slots = off
    cuts = [tuple(c) for c in cuts]
    # slots for cut nodes need their sizes: first pass for shapes
    shapes = infer_shapes(prog)
    for c in cuts:
        res.cut_offsets[c] = off
        off += numel(shapes[c])
    N = res.n_slots = off
    for i, (lf, arr) in enumerate(zip(prog["leaves"], leaf_arrays)):
        t = np.zeros(arr.shape + (N,))
        if lf["rg"]:
            k = arr.size
            eye = np.eye(k).reshape(arr.shape + (k,))
            t[..., res.leaf_offsets[i] : res.leaf_offsets[i] + k] = eye
        res.values[("l", i)] = (arr, t)
    for j, node in enumerate(prog["nodes"]):
        args = [res.values[tuple(r)] for r in node["args"]]
        outs = _dual_op(node, args, N)
        for k, (v, t) in enumerate(outs):
            ref = ("n", j) if len(outs) == 1 and node["op"] not in MULTI else ("n", j, k)
            if ref in res.cut_offsets:
                res.precut[ref] = (v, t)
                o = res.cut_offsets[ref]
                t2 = np.zeros(v.shape + (N,))
                t2[..., o : o + v.size] = np.eye(v.size).reshape(v.shape + (v.size,))
                t = t2
            res.values[ref] = (v, t)
            m = max(float(np.abs(v).max(initial=0.0)), float(np.abs(t).max(initial=0.0)))
            if not math.isfinite(m):
                m = float("inf")
            res.max_abs = max(res.max_abs, m)
    return res


def _dual_op(node, args, N):
    op = node["op"]
    v, t = args[0]
    e = lambda x: x[..., None]  # noqa: E731
    if op == "sin":
        return [(np.sin(v), e(np.cos(v)) * t)]
    if op == "tanh":
        th = np.tanh(v)
        return [(th, e(1 - th**2) * t)]
    if op == "exp":
        ex = np.exp(v)
        return [(ex, e(ex) * t)]
    if op == "square":
        return [(v * v, e(2 * v) * t)]
    if op == "neg":
        return [(-v, -t)]
    if op == "scale":
        return [(node["c"] * v, node["c"] * t)]
    if op in ("novmap", "userfn"):
        return [(2.0 * v, 2.0 * t)]
    if op == "detach":
        return [(v, np.zeros_like(t))]
    if op in BINARY:
        v2, t2 = _coerce_dual(args[1][0], args[1][1], node["coerce"], node, v.shape, N)
        if op == "add":
            return [(v + v2, t + t2)]
        if op == "sub":
            return [(v - v2, t - t2)]
        return [(v * v2, e(v2) * t + e(v) * t2)]
    if op == "sumall":
        return [(v.sum(), t.reshape(-1, N).sum(axis=0))]
    if op == "sum":
        return [(v.sum(axis=node["dim"]), t.sum(axis=node["dim"]))]
    if op == "mean":
        return [(v.mean(axis=node["dim"]), t.mean(axis=node["dim"]))]
    if op == "reshape":
        s = tuple(node["shape"])
        return [(v.reshape(s), t.reshape(s + (N,)))]
    if op == "permute":
        p = list(node["perm"])
        return [(np.transpose(v, p), np.transpose(t, p + [len(p)]))]
    if op == "unsqueeze":
        return [(np.expand_dims(v, node["dim"]), np.expand_dims(t, node["dim"]))]
    if op == "squeeze":
        return [(np.squeeze(v, node["dim"]), np.squeeze(t, node["dim"]))]
    if op == "expand":
        d, k = node["dim"], node["size"]
        s = v.shape[:d] + (k,) + v.shape[d + 1 :]
        return [(np.broadcast_to(v, s).copy(), np.broadcast_to(t, s + (N,)).copy())]
    if op == "select":
        return [(np.take(v, node["index"], axis=node["dim"]), np.take(t, node["index"], axis=node["dim"]))]
    if op == "narrow":
        d, s0, ln = node["dim"], node["start"], node["length"]
        idx = [slice(None)] * v.ndim
        idx[d] = slice(s0, s0 + ln)
        return [(v[tuple(idx)], t[tuple(idx)])]
    if op == "cat":
        v2, t2 = args[1]
        return [(np.concatenate([v, v2], axis=node["dim"]), np.concatenate([t, t2], axis=node["dim"]))]
    if op == "stack":
        v2, t2 = args[1]
        return [(np.stack([v, v2], axis=node["dim"]), np.stack([t, t2], axis=node["dim"]))]
    if op == "unbind":
        d = node["dim"]
        return [(np.take(v, i, axis=d), np.take(t, i, axis=d)) for i in range(v.shape[d])]
    if op == "split":
        d = node["dim"]
        outs, s0 = [], 0
        for sz in node["sizes"]:
            idx = [slice(None)] * v.ndim
            idx[d] = slice(s0, s0 + sz)
            outs.append((v[tuple(idx)], t[tuple(idx)]))
            s0 += sz
        return outs
    raise ValueError(op)


def infer_shapes(prog: dict) -> dict:
    shapes = {("l", i): tuple(lf["shape"]) for i, lf in enumerate(prog["leaves"])}
    for j, node in enumerate(prog["nodes"]):
        outs = result_shapes(node, [shapes[tuple(r)] for r in node["args"]])
        if node["op"] in MULTI:
            for k, s in enumerate(outs):
                shapes[("n", j, k)] = s
        else:
            shapes[("n", j)] = outs[0]
    return shapes


# ------------------------------------------------------------------------------------------------
# torch executor
# ------------------------------------------------------------------------------------------------

_NOVMAP = None


def novmap_function():
    """autograd.Function whose backward goes through NumPy: works sequentially, fails under torch.vmap."""
    global _NOVMAP
    if _NOVMAP is None:
        import torch

        class NoVmap(torch.autograd.Function):
            @staticmethod
            def forward(ctx, x):
                return 2.0 * x

            @staticmethod
            def backward(ctx, g):
                return torch.from_numpy(2.0 * g.detach().numpy().copy()).to(g.dtype)

        _NOVMAP = NoVmap
    return _NOVMAP


_USERFN = None


def user_function():
    """A user-defined autograd.Function (vmap-compatible backward). Its backward node is the ctx object, which here
    carries attributes whose names also exist on built-in nodes (`variable` on AccumulateGrad): graph traversals must
    recognise nodes by what they are, not by an attribute they happen to have."""
    global _USERFN
    if _USERFN is None:
        import torch

        class UserFn(torch.autograd.Function):
            @staticmethod
            def forward(ctx, x):
                ctx.variable = torch.zeros(3)  # an unrelated tensor stored by the user under this name
                ctx.scale = 2.0
                return 2.0 * x

            @staticmethod
            def backward(ctx, g):
                return ctx.scale * g

        _USERFN = UserFn
    return _USERFN


class TorchGraph:
    def __init__(self, prog: dict):
        import torch

        self.prog = prog
        tdt = getattr(torch, prog["dtype"])
        self.leaves = []
        self.values = {}
        for i, lf in enumerate(prog["leaves"]):
            t = torch.tensor(lf["vals"], dtype=tdt).reshape(lf["shape"])
            if lf.get("layout") == "F" and t.ndim >= 2:
                # same logical values, column-major memory (e.g. a transposed weight, a channels_last kernel): still a leaf
                rev = list(range(t.ndim))[::-1]
                t = t.permute(rev).contiguous().permute(rev)
            if lf["rg"]:
                t.requires_grad_(True)
                if lf.get("param"):
                    t = torch.nn.Parameter(t.detach())  # a module parameter (same leaf semantics, another Python type)
            self.leaves.append(t)
            self.values[("l", i)] = t
        for j, node in enumerate(prog["nodes"]):
            args = [self.values[tuple(r)] for r in node["args"]]
            outs = self._op(node, args)
            if node["op"] in MULTI:
                for k, o in enumerate(outs):
                    self.values[("n", j, k)] = o
            else:
                self.values[("n", j)] = outs

    def get(self, ref):
        return self.values[tuple(ref)]

    @staticmethod
    def _coerce(y, mode, node, shape):
        import torch

        if mode == "same":
            return y
        if mode == "sumall":
            return y.sum()
        if mode == "reshape":
            return y.reshape(shape)
        C = torch.tensor(node["C"], dtype=y.dtype)
        return (C @ y.reshape(-1)).reshape(shape)

    def _op(self, node, args):
        import torch

        op = node["op"]
        x = args[0]
        if op == "sin":
            return torch.sin(x)
        if op == "tanh":
            return torch.tanh(x)
        if op == "exp":
            return torch.exp(x)
        if op == "square":
            return x * x
        if op == "neg":
            return -x
        if op == "scale":
            return node["c"] * x
        if op == "novmap":
            return novmap_function().apply(x)
        if op == "userfn":
            return user_function().apply(x)
        if op == "detach":
            return x.detach()
        if op in BINARY:
            y = self._coerce(args[1], node["coerce"], node, x.shape)
            return x + y if op == "add" else (x - y if op == "sub" else x * y)
        if op == "sumall":
            return x.sum()
        if op == "sum":
            return x.sum(dim=node["dim"])
        if op == "mean":
            return x.mean(dim=node["dim"])
        if op == "reshape":
            return x.reshape(node["shape"])
        if op == "permute":
            return x.permute(node["perm"])
        if op == "unsqueeze":
            return x.unsqueeze(node["dim"])
        if op == "squeeze":
            return x.squeeze(node["dim"])
        if op == "expand":
            s = list(x.shape)
            s[node["dim"]] = node["size"]
            return x.expand(s)
        if op == "select":
            return x.select(node["dim"], node["index"])
        if op == "narrow":
            return x.narrow(node["dim"], node["start"], node["length"])
        if op == "cat":
            return torch.cat([x, args[1]], dim=node["dim"])
        if op == "stack":
            return torch.stack([x, args[1]], dim=node["dim"])
        if op == "unbind":
            return x.unbind(node["dim"])
        if op == "split":
            return x.split(node["sizes"], dim=node["dim"])
        raise ValueError(op)


# ------------------------------------------------------------------------------------------------
# Hypothesis strategy
# ------------------------------------------------------------------------------------------------

_DIMS = st.integers(1, 3)


@st.composite
def shapes(draw, max_rank=3, max_numel=12):
    r = draw(st.sampled_from([0, 1, 1, 2, 2, 3][: max(1, 2 * max_rank)] + ([4] if max_rank >= 4 else [])))
    s = []
    for _ in range(r):
        d = draw(_DIMS)
        if numel(s) * d > max_numel:
            d = 1
        s.append(d)
    return s


def _grid_vals(rng, k):
    """Leaf values on the grid {-2, -1.75, ..., 2}, expanded from a Hypothesis-drawn seed (keeps the number of
    Hypothesis draws per program small: structure is drawn by Hypothesis, bulk numbers by the seeded generator)."""
    return (rng.integers(-8, 9, size=k) / 4.0).tolist()


class _Builder:
    """Incrementally builds a program; tracks (ref, shape, requires_grad, depends_on set of leaves)."""

    def __init__(self, draw, dtype, ops):
        self.draw, self.dtype, self.ops = draw, dtype, ops
        self.rng = np.random.default_rng(draw(st.integers(0, 2**32 - 1)))
        self.leaves, self.nodes = [], []
        self.env = []  # dicts: ref, shape, rg, deps(frozenset of leaf idx through differentiable paths), stage

    def add_leaf(self, shape, rg):
        i = len(self.leaves)
        self.leaves.append({"shape": list(shape), "rg": bool(rg), "vals": _grid_vals(self.rng, numel(shape))})
        if len(shape) >= 2 and numel(shape) > max(shape) and self.rng.integers(0, 3) == 0:
            self.leaves[-1]["layout"] = "F"  # non-contiguous parameter
        if rg and self.rng.integers(0, 4) == 0:
            self.leaves[-1]["param"] = True  # torch.nn.Parameter
        self.env.append({"ref": ["l", i], "shape": tuple(shape), "rg": bool(rg), "deps": frozenset([i]) if rg else frozenset(),
                         "leaf": True, "anc": frozenset()})
        return self.env[-1]

    def pick(self, pred=lambda e: True, prefer_recent=True):
        cands = [e for e in self.env if pred(e)]
        if not cands:
            return None
        if prefer_recent and len(cands) > 3 and self.draw(st.booleans()):
            cands = cands[-3:]
        return self.draw(st.sampled_from(cands))

    def add_node(self, node, args):
        j = len(self.nodes)
        shp = result_shapes(node, [a["shape"] for a in args])
        node = dict(node, args=[a["ref"] for a in args])
        self.nodes.append(node)
        detach = node["op"] == "detach"
        rg = (not detach) and any(a["rg"] for a in args)
        deps = frozenset() if detach else frozenset().union(*[a["deps"] for a in args])
        anc = frozenset().union(*[a["anc"] for a in args]) | frozenset(tuple(a["ref"]) for a in args)
        new = []
        if node["op"] in MULTI:
            for k, s in enumerate(shp):
                new.append({"ref": ["n", j, k], "shape": tuple(s), "rg": rg, "deps": deps, "leaf": False, "anc": anc})
        else:
            new.append({"ref": ["n", j], "shape": tuple(shp[0]), "rg": rg, "deps": deps, "leaf": False, "anc": anc})
        self.env.extend(new)
        return new

    def random_node(self, pred=lambda e: True):
        """Draws one op applicable to a drawn argument. Returns the new env entries (possibly [])."""
        draw = self.draw
        x = self.pick(pred)
        if x is None:
            return []
        s = x["shape"]
        r = len(s)
        op = draw(st.sampled_from(self.ops))
        if op in UNARY:
            node = {"op": op}
            if op == "scale":
                node["c"] = draw(st.sampled_from([-2.0, -0.5, 0.5, 1.5, 3.0]))
            return self.add_node(node, [x])
        if op in ("detach", "novmap", "userfn"):
            return self.add_node({"op": op}, [x])
        if op in BINARY:
            y = self.pick(pred)
            modes = ["sumall"]
            if y["shape"] == s:
                modes += ["same", "same", "same"]
            elif numel(y["shape"]) == numel(s):
                modes += ["reshape", "reshape"]
            if numel(y["shape"]) * numel(s) <= 64:
                modes += ["dense"]
            mode = draw(st.sampled_from(modes))
            node = {"op": op, "coerce": mode}
            if mode == "dense":
                k1, k2 = numel(s), numel(y["shape"])
                node["C"] = self.rng.integers(-2, 3, size=(k1, k2)).astype(float).tolist()
            return self.add_node(node, [x, y])
        if op == "sumall":
            return self.add_node({"op": "sumall"}, [x])
        if op in ("sum", "mean"):
            if r == 0:
                return []
            return self.add_node({"op": op, "dim": draw(st.integers(0, r - 1))}, [x])
        if op == "reshape":
            k = numel(s)
            opts = [[k], [1, k], [k, 1]] + [[a, k // a] for a in (2, 3) if k % a == 0 and k // a >= 1]
            if k == 1:
                opts.append([])
            if k % 4 == 0 and k >= 4:
                opts.append([2, 2, k // 4])
            return self.add_node({"op": "reshape", "shape": draw(st.sampled_from(opts))}, [x])
        if op == "permute":
            if r < 2:
                return []
            return self.add_node({"op": "permute", "perm": list(draw(st.permutations(list(range(r)))))}, [x])
        if op == "unsqueeze":
            if r >= 4:
                return []
            return self.add_node({"op": "unsqueeze", "dim": draw(st.integers(0, r))}, [x])
        if op == "squeeze":
            ones = [i for i, d in enumerate(s) if d == 1]
            if not ones:
                return []
            return self.add_node({"op": "squeeze", "dim": draw(st.sampled_from(ones))}, [x])
        if op == "expand":
            ones = [i for i, d in enumerate(s) if d == 1]
            if not ones:
                return []
            k = draw(st.integers(2, 3))
            if numel(s) * k > MAX_NUMEL:
                return []
            return self.add_node({"op": "expand", "dim": draw(st.sampled_from(ones)), "size": k}, [x])
        if op == "select":
            if r == 0:
                return []
            d = draw(st.integers(0, r - 1))
            return self.add_node({"op": "select", "dim": d, "index": draw(st.integers(0, s[d] - 1))}, [x])
        if op == "narrow":
            if r == 0:
                return []
            d = draw(st.integers(0, r - 1))
            start = draw(st.integers(0, s[d] - 1))
            return self.add_node({"op": "narrow", "dim": d, "start": start, "length": draw(st.integers(1, s[d] - start))}, [x])
        if op in ("cat", "stack"):
            if op == "cat" and r == 0:
                return []
            ys = [e for e in self.env if pred(e) and e["shape"] == s]
            y = draw(st.sampled_from(ys))
            if numel(s) * 2 > MAX_NUMEL:
                return []
            if op == "stack" and r >= 4:
                return []
            d = draw(st.integers(0, r - 1 if op == "cat" else r))
            return self.add_node({"op": op, "dim": d}, [x, y])
        if op == "unbind":
            if r == 0:
                return []
            return self.add_node({"op": "unbind", "dim": draw(st.integers(0, r - 1))}, [x])
        if op == "split":
            dims = [i for i, d in enumerate(s) if d >= 2]
            if not dims:
                return []
            d = draw(st.sampled_from(dims))
            a = draw(st.integers(1, s[d] - 1))
            return self.add_node({"op": "split", "dim": d, "sizes": [a, s[d] - a]}, [x])
        raise ValueError(op)


DEFAULT_OPS = (
    list(UNARY) + ["mul", "mul", "add", "sub", "sum", "mean", "sumall", "reshape", "permute", "unsqueeze", "squeeze", "expand",
                   "select", "narrow", "cat", "stack", "unbind", "split", "detach", "userfn"]
)


@st.composite
def programs(draw, max_leaves=4, max_nodes=8, max_outputs=3, ops=DEFAULT_OPS, dtypes=("float64", "float32"),
             max_rank=3, scalar_outputs=False, min_leaves=1):
    dtype = draw(st.sampled_from(list(dtypes)))
    b = _Builder(draw, dtype, list(ops))
    nl = draw(st.sampled_from(list(range(min_leaves, max_leaves + 1))))
    for i in range(nl):
        shape = draw(shapes(max_rank=max_rank))
        if i > 0 and draw(st.sampled_from([True, False, False])):
            shape = list(b.leaves[draw(st.integers(0, i - 1))]["shape"])  # equal-numel inputs matter for layout bugs
        rg = True if i == 0 else draw(st.sampled_from([True] * 5 + [False]))
        b.add_leaf(shape, rg)
    nn = draw(st.sampled_from(list(range(1, max_nodes + 1))))
    for _ in range(nn):
        b.random_node()
    cands = [e for e in b.env if not e["leaf"] and e["rg"] and (not scalar_outputs or e["shape"] == ())]
    if not cands:
        x = b.pick(lambda e: e["rg"])
        new = b.add_node({"op": "square"}, [x])
        if scalar_outputs and new[0]["shape"] != ():
            new = b.add_node({"op": "sumall"}, [new[0]])
        cands = new
    k = draw(st.sampled_from(list(range(1, min(max_outputs, len(cands)) + 1))))
    idx = draw(st.lists(st.integers(0, len(cands) - 1), min_size=k, max_size=k, unique=True))
    outputs = [cands[i]["ref"] for i in idx]
    return {"dtype": dtype, "leaves": b.leaves, "nodes": b.nodes, "outputs": outputs}


HEAD_OPS = list(UNARY) + ["mul", "mul", "add", "sub", "sum", "mean", "sumall", "reshape", "select", "narrow", "unsqueeze", "userfn"]


@st.composite
def mtl_programs(draw, max_shared=3, max_features=3, max_tasks=4, max_task_leaves=3, dtypes=("float64", "float32"),
                 trunk_ops=DEFAULT_OPS, allow_around=True, max_trunk_nodes=5, max_head_nodes=3, sibling=False):
    """Trunk/heads program. Returns the IR plus:
      features: refs of 1..k mutually independent trunk nodes; losses: one scalar ref per task;
      task_leaves: per task, the leaves it *lists* (may include leaves it does not use, leaves shared between tasks);
      shared_leaves: the trunk leaves requiring grad; around: True when some head reaches the trunk around the features.
    """
    dtype = draw(st.sampled_from(list(dtypes)))
    b = _Builder(draw, dtype, list(trunk_ops))
    rng = b.rng
    n_shared = int(rng.integers(1, max_shared + 1))
    trunk = []
    for i in range(n_shared):
        shape = draw(shapes(max_rank=2, max_numel=6))
        if i > 0 and rng.integers(0, 3) == 0:
            shape = list(b.leaves[int(rng.integers(0, i))]["shape"])
        trunk.append(b.add_leaf(shape, True))
    if rng.integers(0, 4) == 0:
        trunk.append(b.add_leaf(draw(shapes(max_rank=2, max_numel=6)), False))
    n_leaf_trunk = len(b.leaves)
    in_trunk = lambda e: any(e is t for t in trunk)  # noqa: E731
    for _ in range(draw(st.sampled_from(list(range(1, max_trunk_nodes + 1))))):
        trunk.extend(b.random_node(in_trunk))
    cands = [e for e in trunk if not e["leaf"] and e["rg"]]
    if not cands:
        x = next(e for e in trunk if e["rg"])
        trunk.extend(b.add_node({"op": "tanh"}, [x]))
        cands = [trunk[-1]]
    order = [cands[i] for i in rng.permutation(len(cands))]
    feats = []
    want = int(rng.integers(1, max_features + 1))
    nid = lambda ref: (ref[0], ref[1])  # noqa: E731  autograd node of a tensor (all results of a multi-output op share it)
    for e in order:
        # independence at the level of autograd nodes: no feature's node is an ancestor of another feature (torch
        # captures gradients per node, so a feature below a *sibling* of another feature is not independent of it)
        if any(nid(e["ref"]) in {nid(a) for a in f["anc"]} or nid(f["ref"]) in {nid(a) for a in e["anc"]} for f in feats):
            continue
        feats.append(e)
        if len(feats) == want:
            break
    siblings = []
    if sibling:
        # directed shape: the features are some results of one multi-output node, the heads may use the OTHER results
        # (they reach the shared leaves around the features, through a sibling edge of the same autograd node)
        x = next((e for e in reversed(trunk) if e["rg"] and not e["leaf"] and any(d >= 2 for d in e["shape"])), None)
        if x is None:
            x0 = next(e for e in trunk if e["rg"])
            x = b.add_node({"op": "stack", "dim": 0}, [x0, x0])[0]
            trunk.append(x)
        d = next(i for i, dd in enumerate(x["shape"]) if dd >= 2)
        outs = b.add_node({"op": "unbind", "dim": d}, [x])
        trunk.extend(outs)
        k = int(rng.integers(1, len(outs)))
        pick_idx = sorted(rng.permutation(len(outs))[:k].tolist())
        feats = [outs[i] for i in pick_idx]
        siblings = [o for i, o in enumerate(outs) if i not in pick_idx]
    n_tasks = min(max_tasks, [1, 2, 2, 3, 3, 4][int(rng.integers(0, 6))])
    around = bool(allow_around and (rng.integers(0, 5) == 0 or (sibling and rng.integers(0, 3) > 0)))
    common_leaves = []
    if n_tasks >= 2 and rng.integers(0, 4) == 0:
        common_leaves.append(b.add_leaf(draw(shapes(max_rank=2, max_numel=6)), True))
    task_leaves, losses = [], []
    for t in range(n_tasks):
        f0 = feats[int(rng.integers(0, len(feats)))]
        own = []
        for _ in range(int(rng.integers(0, max_task_leaves + 1))):
            # half of the task leaves have the shape of the feature they meet: `f + b1 + b2` makes autograd hand the
            # SAME gradient tensor to b1 and b2 (aliasing matters for "a fresh .grad shares memory with nothing")
            shp = list(f0["shape"]) if rng.integers(0, 2) else draw(shapes(max_rank=2, max_numel=6))
            own.append(b.add_leaf(shp, True))
        listed = own + [c for c in common_leaves if rng.integers(0, 3) > 0]
        allowed = list(feats) + listed
        if around:
            allowed += siblings + [e for e in trunk if e["rg"] and not any(e is f for f in feats)][:3]
        ok = lambda e, allowed=allowed: any(e is a for a in allowed)  # noqa: E731
        b.ops = list(HEAD_OPS)
        head = []
        same_shape = [p for p in listed if p["shape"] == f0["shape"]]
        if len(same_shape) >= 1 and rng.integers(0, 2):
            cur = f0
            for p in same_shape[: int(rng.integers(1, 3))]:
                cur = b.add_node({"op": "add", "coerce": "same"}, [cur, p])[0]
                head.append(cur)
        elif listed and rng.integers(0, 4) > 0:
            p0 = listed[int(rng.integers(0, len(listed)))]
            mode = "same" if p0["shape"] == f0["shape"] else ("reshape" if numel(p0["shape"]) == numel(f0["shape"]) else "sumall")
            head.extend(b.add_node({"op": ["mul", "add"][int(rng.integers(0, 2))], "coerce": mode}, [f0, p0]))
        else:
            head.extend(b.add_node({"op": "sin"}, [f0]))
        allowed += head
        for _ in range(int(rng.integers(0, max_head_nodes + 1))):
            new = b.random_node(ok)
            head.extend(new)
            allowed.extend(new)
        last = [e for e in head if e["rg"]][-1]
        if last["shape"] != ():
            last = b.add_node({"op": "sumall"}, [last])[0]
        losses.append(last["ref"])
        task_leaves.append([e["ref"][1] for e in listed])
    return {
        "dtype": dtype,
        "leaves": b.leaves,
        "nodes": b.nodes,
        "outputs": losses,
        "features": [f["ref"] for f in feats],
        "losses": losses,
        "task_leaves": task_leaves,
        "shared_leaves": [i for i in range(n_leaf_trunk) if b.leaves[i]["rg"]],
        "around": around,
    }


# ------------------------------------------------------------------------------------------------
# reachability on the IR (reference for default parameter discovery)
# ------------------------------------------------------------------------------------------------


def leaf_deps(prog: dict, roots, stop=()) -> set[int]:
    """Leaves requiring grad from which the values at `roots` are computed through differentiable paths, not
    passing through the *tensors* listed in `stop` (cut at tensors, i.e. at individual results of multi-output ops)."""
    stop = {tuple(s) for s in stop}
    seen, out = set(), set()
    stack = [tuple(r) for r in roots if tuple(r) not in stop]
    while stack:
        ref = stack.pop()
        if ref in seen:
            continue
        seen.add(ref)
        if ref[0] == "l":
            if prog["leaves"][ref[1]]["rg"]:
                out.add(ref[1])
            continue
        node = prog["nodes"][ref[1]]
        if node["op"] == "detach":
            continue
        for a in node["args"]:
            a = tuple(a)
            if a not in stop:
                stack.append(a)
    return out


def requires_grad(prog: dict, ref) -> bool:
    ref = tuple(ref)
    if ref[0] == "l":
        return prog["leaves"][ref[1]]["rg"]
    node = prog["nodes"][ref[1]]
    if node["op"] == "detach":
        return False
    return any(requires_grad(prog, a) for a in node["args"])
