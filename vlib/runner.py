"""
Runner: sharded Hypothesis / enumeration driver, evidence writer, VIOLATION / KNOWN-FINDING lines.

A property module (props/cNN.py) exposes

    ID, TITLE, RULE (str), ASSUMPTIONS (list[str]), LEVEL_NOTE (optional)
    parts(tier) -> list[Part]
    run_case(case: dict) -> Outcome                      # dispatches on case["kind"]
    REQUIRED_CLASSES: dict[str, int]   (optional)       # class label -> minimal count (else exit 2)
    known_match(case, label, finding) -> bool (optional) # matcher for *open* known findings

Exit codes: 0 held, 1 violation (with a VIOLATION line), 2 harness error / inconclusive.
"""

from __future__ import annotations

import hashlib
import importlib
import json
import math
import os
import sys
import time
import traceback
import warnings
from collections import Counter

ROOT = os.path.dirname(os.path.dirname(os.path.abspath(__file__)))
N_WORKERS = int(os.environ.get("VERIF_WORKERS", "16"))
OUT = os.environ.get("VERIF_OUT", ROOT)  # evidence/ and replays/found_* go here (mutant self-test redirects it)


# ------------------------------------------------------------------------------------------------
# process set-up
# ------------------------------------------------------------------------------------------------


def torchjd_src() -> str:
    return os.path.realpath(os.environ.get("TORCHJD_SRC", "/repo/src"))


_SETUP_DONE = False


def setup_process() -> None:
    """Make the *current working tree* of torchjd importable first, pin threads, silence warnings."""
    global _SETUP_DONE
    if _SETUP_DONE:
        return
    for var in ("OMP_NUM_THREADS", "MKL_NUM_THREADS", "OPENBLAS_NUM_THREADS"):
        os.environ[var] = "1"
    src = torchjd_src()
    if src in sys.path:
        sys.path.remove(src)
    sys.path.insert(0, src)
    if ROOT not in sys.path:
        sys.path.insert(1, ROOT)
    warnings.filterwarnings("ignore")
    import torch

    torch.set_num_threads(1)
    try:
        torch.set_num_interop_threads(1)
    except RuntimeError:
        pass
    import torchjd

    where = os.path.realpath(torchjd.__file__)
    if not where.startswith(src + os.sep):
        raise HarnessError(f"torchjd imported from {where}, expected under {src}")
    _SETUP_DONE = True


class HarnessError(Exception):
    pass


# ------------------------------------------------------------------------------------------------
# outcome of one case
# ------------------------------------------------------------------------------------------------


class Outcome:
    __slots__ = ("fail", "nontrivial", "classes", "excluded", "key", "sample", "evals", "metrics")

    def __init__(self):
        self.fail: list[tuple[str, str]] = []
        self.nontrivial = False
        self.classes: list[str] = []
        self.excluded: str | None = None  # reason: the case is outside the property's domain
        self.key = None  # canonical key for distinctness (default: the case itself)
        self.sample = None  # compact description (default: the case)
        self.evals = 1  # oracle evaluations performed by this case
        self.metrics: dict[str, float] = {}  # e.g. error/tolerance ratios; the runner keeps the maximum

    def metric(self, name: str, value: float) -> None:
        if value == value:  # not NaN
            self.metrics[name] = max(self.metrics.get(name, float("-inf")), float(value))

    def within(self, err: float, tol: float, label: str, msg="") -> bool:
        """check(err <= tol) that also records the ratio err/tol as a metric (calibration head-room)."""
        self.metric("ratio:" + label, err / tol if tol > 0 else (0.0 if err == 0 else float("inf")))
        return self.check(err <= tol, label, msg if msg else f"error {err:.3e} > tolerance {tol:.3e}")

    def check(self, cond, label: str, msg="") -> bool:
        if not cond:
            self.fail.append((label, msg if isinstance(msg, str) else repr(msg)))
        return bool(cond)

    def cls(self, *labels: str) -> None:
        self.classes.extend(labels)

    def call(self, label: str, fn, *a, **k):
        """Call code under test; an exception becomes a failure `label:<Type>` (returns _RAISED)."""
        try:
            return fn(*a, **k)
        except Exception as e:  # noqa: BLE001 - every exception of the code under test is a result
            self.fail.append((f"{label}:{type(e).__name__}", short(str(e))))
            return RAISED


class _Raised:
    def __repr__(self):
        return "RAISED"


RAISED = _Raised()


def short(s: str, n: int = 300) -> str:
    s = " ".join(str(s).split())
    return s if len(s) <= n else s[: n - 3] + "..."


def case_hash(obj) -> int:
    data = json.dumps(obj, sort_keys=True, default=_json_default).encode()
    return int.from_bytes(hashlib.sha1(data).digest()[:8], "big")


def _json_default(o):
    try:
        import numpy as np

        if isinstance(o, np.ndarray):
            return o.tolist()
        if isinstance(o, (np.floating, np.integer, np.bool_)):
            return o.item()
    except ImportError:
        pass
    if isinstance(o, (set, frozenset)):
        return sorted(o)
    if isinstance(o, tuple):
        return list(o)
    return repr(o)


def to_jsonable(obj):
    return json.loads(json.dumps(obj, default=_json_default))


class Part:
    """One generator of a property check.

    kind='given'  : `strategy()` returns a Hypothesis strategy of case dicts; `n` examples in total.
    kind='enum'   : `cases()` returns a sequence of case dicts (finite, enumerated completely).
    kind='machine': `machine(report)` returns a hypothesis.stateful.RuleBasedStateMachine subclass that executes its
                    rules against the code under test and calls report(case, outcome) from teardown(), where `case` is
                    the JSON description of the history it ran (replayable through run_case); `n` machines in total,
                    at most `steps` rule applications each.
    """

    def __init__(self, name, kind, n=None, strategy=None, cases=None, exhaustive_note=None, machine=None, steps=20):
        self.name, self.kind, self.n = name, kind, n
        self.strategy, self.cases, self.exhaustive_note = strategy, cases, exhaustive_note
        self.machine, self.steps = machine, steps


# ------------------------------------------------------------------------------------------------
# per-shard statistics
# ------------------------------------------------------------------------------------------------

MAX_FAIL_PER_LABEL = 8
MAX_SAMPLES = 4


class Stats:
    def __init__(self):
        self.evaluations = 0
        self.cases = 0
        self.nontrivial_keys: set[int] = set()
        self.all_keys: set[int] = set()
        self.classes: Counter = Counter()
        self.excluded: Counter = Counter()
        self.failures: dict[str, list[dict]] = {}
        self.samples: list = []
        self.trivial_samples: list = []
        self.metrics: dict[str, float] = {}

    def record(self, case, out: Outcome, part: str, shard: int):
        self.cases += 1
        if out.excluded is not None:
            self.excluded[out.excluded] += 1
            return
        self.evaluations += out.evals
        k = case_hash(out.key if out.key is not None else case)
        self.all_keys.add(k)
        for c in out.classes:
            self.classes[c] += 1
        for k_, v_ in out.metrics.items():
            if v_ > self.metrics.get(k_, float("-inf")):
                self.metrics[k_] = v_
        if out.nontrivial:
            new = k not in self.nontrivial_keys
            self.nontrivial_keys.add(k)
            if new and len(self.samples) < MAX_SAMPLES:
                self.samples.append(_compact(out.sample if out.sample is not None else case))
        elif len(self.trivial_samples) < 1:
            self.trivial_samples.append(_compact(out.sample if out.sample is not None else case))
        for label, msg in out.fail:
            lst = self.failures.setdefault(label, [])
            size = len(json.dumps(case, default=_json_default))
            rec = {"label": label, "msg": msg, "case": case, "size": size, "part": part, "shard": shard}
            lst.append(rec)
            lst.sort(key=lambda r: r["size"])
            del lst[MAX_FAIL_PER_LABEL:]

    def to_dict(self):
        return {
            "evaluations": self.evaluations,
            "cases": self.cases,
            "nontrivial_keys": self.nontrivial_keys,
            "all_keys": self.all_keys,
            "classes": self.classes,
            "excluded": self.excluded,
            "failures": self.failures,
            "samples": self.samples,
            "trivial_samples": self.trivial_samples,
            "metrics": self.metrics,
        }


def _compact(obj, limit=6000):
    obj = to_jsonable(obj)
    s = json.dumps(obj)
    if len(s) <= limit:
        return obj
    return {"truncated": s[:limit] + "..."}


# ------------------------------------------------------------------------------------------------
# worker
# ------------------------------------------------------------------------------------------------


def derive_seed(seed: int, *parts) -> int:
    h = hashlib.sha1(("|".join(str(p) for p in (seed,) + parts)).encode()).digest()
    return int.from_bytes(h[:6], "big")


def load_prop(prop_id: str):
    setup_process()
    return importlib.import_module(f"props.{prop_id.lower()}")


def _through_torchjd(tb) -> bool:
    src = torchjd_src()
    for frame in traceback.extract_tb(tb):
        if os.path.realpath(frame.filename).startswith(src + os.sep):
            return True
    return False


def safe_run_case(mod, case) -> Outcome:
    """run_case, converting an escaping exception that went through torchjd into a failure."""
    try:
        return mod.run_case(case)
    except (HarnessError, MemoryError):
        raise
    except Exception as e:  # noqa: BLE001
        if _through_torchjd(e.__traceback__):
            out = Outcome()
            out.fail.append((f"unexpected-exception:{type(e).__name__}", short(str(e))))
            return out
        raise


def run_shard(args) -> dict:
    """Executed in a worker process. Returns a picklable dict of statistics."""
    prop_id, part_name, shard, n_shards, seed, tier, target_label, time_cap = args
    try:
        mod = load_prop(prop_id)
        part = next(p for p in mod.parts(tier) if p.name == part_name)
        stats = Stats()
        t_end = time.time() + time_cap if time_cap else None
        shrunk: list = []

        def report(case, out):
            stats.record(case, out, part_name, shard)
            if target_label is not None:
                labels = {lab for lab, _ in out.fail}
                if target_label in labels and (t_end is None or time.time() < t_end):
                    shrunk.append(case)
                    raise AssertionError(target_label)

        def process(case):
            report(case, safe_run_case(mod, case))

        if part.kind == "enum":
            cases = part.cases()
            for i in range(shard, len(cases), n_shards):
                try:
                    process(cases[i])
                except AssertionError:
                    break
        else:
            import hypothesis
            from hypothesis import HealthCheck, Phase, given, settings

            n = max(1, math.ceil(part.n / n_shards))
            phases = [Phase.generate] if target_label is None else [Phase.generate, Phase.shrink]
            st = settings(
                max_examples=n,
                database=None,
                deadline=None,
                derandomize=False,
                phases=phases,
                report_multiple_bugs=False,
                suppress_health_check=list(HealthCheck),
                verbosity=hypothesis.Verbosity.quiet,
            )

            if part.kind == "machine":
                from hypothesis.stateful import run_state_machine_as_test

                st = settings(st, stateful_step_count=part.steps)
                cls = hypothesis.seed(derive_seed(seed, prop_id, part_name, shard))(part.machine(report))

                def test():
                    run_state_machine_as_test(cls, settings=st)

            else:

                @hypothesis.seed(derive_seed(seed, prop_id, part_name, shard))
                @st
                @given(part.strategy())
                def test(case):
                    process(case)

            try:
                test()
            except AssertionError:
                pass
            except hypothesis.errors.HypothesisException as e:
                if target_label is None:
                    raise
                # Flaky* after the shrink time cap: expected, the recorded cases are used instead.
                _ = e
        d = stats.to_dict()
        d["shrunk"] = shrunk[-1] if shrunk else None
        d["error"] = None
        return d
    except BaseException as e:  # noqa: BLE001 - reported to the parent as harness error
        return {"error": "".join(traceback.format_exception(type(e), e, e.__traceback__))[-4000:]}


# ------------------------------------------------------------------------------------------------
# known findings
# ------------------------------------------------------------------------------------------------


def load_known_findings(prop_id: str) -> list[dict]:
    path = os.path.join(ROOT, "known_findings.json")
    if not os.path.exists(path):
        return []
    with open(path) as f:
        data = json.load(f)
    return [x for x in data.get("findings", []) if x.get("property") == prop_id]


# ------------------------------------------------------------------------------------------------
# main entry points
# ------------------------------------------------------------------------------------------------


class _Pool:
    """ProcessPoolExecutor wrapper: unlike multiprocessing.Pool it notices a worker that died (e.g. killed by the
    kernel for using too much memory) and raises BrokenProcessPool instead of waiting forever."""

    def __init__(self):
        import multiprocessing as mp
        from concurrent.futures import ProcessPoolExecutor

        self.ex = ProcessPoolExecutor(max_workers=N_WORKERS, mp_context=mp.get_context("spawn"), initializer=_limit_memory)

    def __enter__(self):
        return self

    def __exit__(self, *exc):
        self.ex.shutdown(wait=True, cancel_futures=True)

    def map(self, fn, jobs, chunksize=1):
        return list(self.ex.map(fn, jobs, chunksize=chunksize))

    def apply(self, fn, args):
        return self.ex.submit(fn, *args).result()


def _limit_memory():
    """Each worker may use at most VERIF_WORKER_MEM_GB (default 16 GB) of address space: a runaway allocation becomes a
    MemoryError in that worker (reported as a harness error), not an OOM kill of an arbitrary process."""
    try:
        import resource

        gb = float(os.environ.get("VERIF_WORKER_MEM_GB", "16"))
        resource.setrlimit(resource.RLIMIT_AS, (int(gb * 2**30), int(gb * 2**30)))
    except Exception:  # noqa: BLE001
        pass


def _pool():
    return _Pool()


def write_replay(prop_id: str, label: str, case, msg: str) -> str:
    d = os.path.join(OUT, "replays", prop_id)
    os.makedirs(d, exist_ok=True)
    h = "%016x" % case_hash(case)
    safe = "".join(ch if ch.isalnum() or ch in "-_." else "_" for ch in label)[:60]
    path = os.path.join(d, f"found_{safe}_{h[:10]}.json")
    with open(path, "w") as f:
        json.dump(
            {"property": prop_id, "label": label, "message": msg, "case": to_jsonable(case)},
            f,
            indent=1,
        )
    return os.path.relpath(path, OUT) if OUT == ROOT else path


def replay_file(prop_id: str, path: str) -> int:
    mod = load_prop(prop_id)
    with open(path) as f:
        data = json.load(f)
    case = data["case"] if "case" in data else data
    out = safe_run_case(mod, case)
    if out.excluded is not None:
        print(f"replay {path}: case is outside the domain ({out.excluded})")
        return 0
    if out.fail:
        for label, msg in out.fail:
            print(f"FAIL [{label}] {msg}")
        print(f"VIOLATION property={prop_id} replay={path}")
        return 1
    print(f"replay {path}: property holds on this case")
    return 0


def run_check(prop_id: str, tier: str, seed: int, only_part: str | None = None, n_override=None) -> int:
    t0 = time.time()
    try:
        mod = load_prop(prop_id)
    except Exception as e:  # noqa: BLE001
        print(f"HARNESS-ERROR property={prop_id}: cannot load: {e}")
        traceback.print_exc()
        return 2
    parts = mod.parts(tier)
    if only_part:
        parts = [p for p in parts if p.name == only_part]
    if n_override:
        for p in parts:
            if p.kind in ("given", "machine"):
                p.n = n_override

    # 1. regression replays (seconds): committed witnesses of repaired defects / caught mutants
    violations: list[tuple[str, str]] = []
    findings = load_known_findings(prop_id)
    open_findings = [f for f in findings if f.get("status") == "open"]
    regress_dir = os.path.join(ROOT, "replays", prop_id)
    n_regress = 0
    if os.path.isdir(regress_dir):
        for name in sorted(os.listdir(regress_dir)):
            if not name.startswith("regress_"):
                continue
            with open(os.path.join(regress_dir, name)) as f:
                data = json.load(f)
            out = safe_run_case(mod, data["case"])
            n_regress += 1
            if out.fail:
                rel = os.path.relpath(os.path.join(regress_dir, name), ROOT)
                print(f"FAIL regression {name}: {out.fail[0]}")
                violations.append((out.fail[0][0], rel))
    for fnd in open_findings:
        out = safe_run_case(mod, fnd["witness"])
        if out.fail:
            print(f"KNOWN-FINDING: property={prop_id} {fnd['what']}")
        else:
            print(f"note: known finding '{fnd['id']}' no longer reproduces on this tree")

    # 2. generated search, sharded
    jobs = []
    for p in parts:
        n_sh = N_WORKERS if (p.kind == "enum" or (p.n or 0) >= 4 * N_WORKERS) else 1
        for sh in range(n_sh):
            jobs.append((prop_id, p.name, sh, n_sh, seed, tier, None, None))
    merged = {
        "evaluations": 0,
        "cases": 0,
        "nontrivial_keys": set(),
        "all_keys": set(),
        "classes": Counter(),
        "excluded": Counter(),
        "failures": {},
        "samples": [],
        "trivial_samples": [],
        "metrics": {},
    }
    per_part: dict[str, dict] = {}
    errors = []
    with _pool() as pool:
        try:
            results = pool.map(run_shard, jobs, chunksize=1)
        except Exception as e:  # noqa: BLE001 - BrokenProcessPool: a worker died
            print(f"HARNESS-ERROR property={prop_id}: worker pool broke ({type(e).__name__}: {e})")
            return 2
        for job, res in zip(jobs, results):
            if res.get("error"):
                errors.append((job, res["error"]))
                continue
            pp = per_part.setdefault(job[1], {"cases": 0, "evaluations": 0, "nontrivial": set()})
            pp["cases"] += res["cases"]
            pp["evaluations"] += res["evaluations"]
            pp["nontrivial"] |= res["nontrivial_keys"]
            merged["evaluations"] += res["evaluations"]
            merged["cases"] += res["cases"]
            merged["nontrivial_keys"] |= res["nontrivial_keys"]
            merged["all_keys"] |= res["all_keys"]
            merged["classes"].update(res["classes"])
            merged["excluded"].update(res["excluded"])
            for label, lst in res["failures"].items():
                merged["failures"].setdefault(label, []).extend(lst)
            merged["samples"].extend(res["samples"])
            merged["trivial_samples"].extend(res["trivial_samples"])
            for k_, v_ in res["metrics"].items():
                if v_ > merged["metrics"].get(k_, float("-inf")):
                    merged["metrics"][k_] = v_

        if errors:
            job, err = errors[0]
            print(f"HARNESS-ERROR property={prop_id} part={job[1]} shard={job[2]}:\n{err}")
            return 2

        # 3. known-finding exclusion, shrinking, replay files
        n_known_excluded = 0
        buckets = {}
        for label, lst in merged["failures"].items():
            keep = []
            for rec in lst:
                if any(
                    hasattr(mod, "known_match") and mod.known_match(rec["case"], label, f)
                    for f in open_findings
                ):
                    n_known_excluded += 1
                else:
                    keep.append(rec)
            if keep:
                keep.sort(key=lambda r: r["size"])
                buckets[label] = keep
        shrink_cap = 20 if tier == "quick" else 120
        for label, lst in sorted(buckets.items())[:6]:
            best = lst[0]
            part = next(p for p in parts if p.name == best["part"])
            if part.kind in ("given", "machine") and os.environ.get("VERIF_NO_SHRINK") != "1":
                n_sh = N_WORKERS if (part.n or 0) >= 4 * N_WORKERS else 1
                job = (prop_id, part.name, best["shard"], n_sh, seed, tier, label, shrink_cap)
                res = pool.apply(run_shard, (job,))
                if not res.get("error") and res.get("shrunk") is not None:
                    cand = res["shrunk"]
                    if len(json.dumps(cand, default=_json_default)) <= best["size"]:
                        best = dict(best, case=cand)
            # confirm in this process; fall back to the recorded case if the shrunk one is flaky
            out = safe_run_case(mod, best["case"])
            msg = next((m for lab, m in out.fail if lab == label), None)
            if msg is None:
                best = lst[0]
                msg = best["msg"]
            rel = write_replay(prop_id, label, best["case"], msg)
            print(f"FAIL [{label}] {short(msg, 500)}")
            violations.append((label, rel))

    # 4. evidence
    wall = time.time() - t0
    classes = dict(sorted(merged["classes"].items()))
    missing = [
        c for c, need in getattr(mod, "REQUIRED_CLASSES", {}).items()
        if classes.get(c, 0) < need and not only_part
    ]
    samples = merged["samples"][:6] + merged["trivial_samples"][:1]
    exhaustive = [
        {"part": p.name, "what": p.exhaustive_note, "cases": per_part.get(p.name, {}).get("cases", 0)}
        for p in parts
        if p.kind == "enum" and p.exhaustive_note
    ]
    evidence = {
        "property_id": prop_id,
        "tier": tier,
        "seed": seed,
        "level": "exploration",
        "coverage": {
            "evaluations": merged["evaluations"],
            "distinct_nontrivial": len(merged["nontrivial_keys"]),
            "distinct_cases": len(merged["all_keys"]),
            "generated_cases": merged["cases"],
            "rule": mod.RULE,
            "samples": samples,
            "classes": classes,
            "excluded": dict(merged["excluded"]),
            "max_metrics": {k: (v if math.isfinite(v) else repr(v)) for k, v in sorted(merged["metrics"].items())},
            "excluded_known_findings": n_known_excluded,
            "regression_replays": n_regress,
            "parts": {
                k: {"cases": v["cases"], "evaluations": v["evaluations"], "distinct_nontrivial": len(v["nontrivial"])}
                for k, v in per_part.items()
            },
            "exhaustive_subdomains": exhaustive,
            "exhaustive": False,
            "torchjd_src": torchjd_src(),
        },
        "assumptions": list(getattr(mod, "ASSUMPTIONS", [])),
        "wall_s": round(wall, 2),
        "violations": len(violations),
    }
    os.makedirs(os.path.join(OUT, "evidence"), exist_ok=True)
    if not only_part:
        with open(os.path.join(OUT, "evidence", f"{prop_id}.json"), "w") as f:
            json.dump(evidence, f, indent=1, default=_json_default)
            f.write("\n")

    print(
        f"{prop_id} tier={tier} seed={seed}: cases={merged['cases']} evaluations={merged['evaluations']} "
        f"distinct_nontrivial={len(merged['nontrivial_keys'])} excluded={sum(merged['excluded'].values())} "
        f"violations={len(violations)} wall={wall:.1f}s"
    )
    if os.environ.get("VERIF_VERBOSE"):
        print(json.dumps({"classes": classes, "excluded": dict(merged["excluded"]),
                          "max_metrics": {k: repr(v) for k, v in sorted(merged["metrics"].items())}}, indent=1))
    if violations:
        for label, rel in violations:
            print(f"VIOLATION property={prop_id} replay={rel}")
        return 1
    if missing:
        print(f"HARNESS-ERROR property={prop_id}: generator never produced required classes {missing}")
        return 2
    if merged["evaluations"] == 0 or len(merged["nontrivial_keys"]) < 2:
        print(f"HARNESS-ERROR property={prop_id}: vacuous run (no non-trivial cases)")
        return 2
    total = merged["cases"]
    if total and sum(merged["excluded"].values()) > 0.5 * total:
        print(f"HARNESS-ERROR property={prop_id}: more than half of the generated cases were excluded")
        return 2
    return 0


def main(argv=None) -> int:
    import argparse

    ap = argparse.ArgumentParser(prog="check")
    ap.add_argument("property")
    ap.add_argument("--tier", choices=["quick", "thorough"], default=None)
    ap.add_argument("--replay", default=None)
    ap.add_argument("--part", default=None)
    ap.add_argument("--n", type=int, default=None)
    a = ap.parse_args(argv)
    tier = a.tier or os.environ.get("VERIF_TIER") or "quick"
    if tier not in ("quick", "thorough"):
        tier = "quick"
    try:
        seed = int(os.environ.get("VERIF_SEED", "1"))
    except ValueError:
        seed = 1
    prop_id = a.property.upper()
    try:
        if a.replay:
            return replay_file(prop_id, a.replay)
        return run_check(prop_id, tier, seed, a.part, a.n)
    except HarnessError as e:
        print(f"HARNESS-ERROR property={prop_id}: {e}")
        return 2
    except Exception:  # noqa: BLE001
        print(f"HARNESS-ERROR property={prop_id}:")
        traceback.print_exc()
        return 2


if __name__ == "__main__":
    sys.exit(main())
