"""C06 - Gradients accumulate; nothing but the requested .grad fields is touched."""

import numpy as np
import torch
from hypothesis import strategies as st
from hypothesis.stateful import RuleBasedStateMachine, initialize, precondition, rule

from torchjd import backward, mtl_backward
from props import c02
from vlib import jdcheck, programs as P
from vlib.matrices import eps_of
from vlib.probes import _same
from vlib.runner import Outcome, Part

ID = "C06"
RULE = (
    "Stateful, model-based: a Hypothesis RuleBasedStateMachine drives ONE retained trunk/heads graph through a "
    "history of rules: backward(sub-list of losses/features, aggregator, sub-list of parameters | None, "
    "retain_graph=True, chunk size), mtl_backward(...), zero a .grad, set it to None, set it to a drawn tensor or to a NON-CONTIGUOUS view of a wider buffer, "
    "in-place .grad.mul_(c) / .add_(c), repeat the last call (deterministic aggregators: position coding, Constant, "
    "Mean, Sum, UPGrad, DualProj, TrimmedMean, Krum). Model: dict leaf -> expected .grad. Invariants after every "
    "step: (a) each requested .grad equals bitwise previous + its slice of the vector returned by the (recording) "
    "aggregator, whose input matrix equals the dual-number oracle Jacobian; task leaves receive previous + oracle "
    "gradient; (b) the VALUE of every tensor (leaves, intermediates, outputs) and the matrix handed to the aggregator "
    "are bitwise unchanged; (c) the .grad of every non-requested tensor is bitwise unchanged and keeps its storage; "
    "(d) an existing .grad (incl. non-contiguous ones: a column of a wider buffer, a transposed view) receives the "
    "update in place - it is not replaced by another tensor - and a .grad created by the step shares its "
    "storage with no other live tensor (leaves, other grads, intermediates, the aggregator's input and output); "
    "(e) a repeated call returns bitwise the same aggregated vector. Non-trivial = a history containing both an "
    "accumulation onto an existing non-zero .grad and a creation from None. Distinct = distinct (program, history)."
    " Part `aliased_grads`: two requested tensors whose pre-existing .grad are the same tensor / overlapping / adjacent views of one buffer (backward and mtl_backward): the buffer must equal initial + both slices of the returned vector and both .grad must still live in it."
)
ASSUMPTIONS = ["graphs without retain_grad() tensors (documented limitation); retain_graph=True so the history can continue"]
LEVEL_TEXT = (
    "Model-based stateful testing (Hypothesis rule-based state machine, up to 12 / 30 steps per history) with a "
    "reference model of every .grad field and full snapshots of values and storage pointers. No proof."
)
LEVEL_NOTE = "Trusted: the dual-number oracle, data_ptr()/untyped_storage() to observe aliasing, torch.equal for bitwise equality."
TECHNIQUE = "stateful model-based testing (hypothesis.stateful.RuleBasedStateMachine) against a reference model of .grad"
REQUIRED_CLASSES = {"non-contiguous-grad": 1, "accumulate-onto-existing": 1, "create-from-none": 1, "op:repeat": 1, "op:mtl": 1, "op:backward": 1,
                    "op:edit": 1}

AGG_EXCLUDE = ()


class Exec:
    """Executes a history step by step against the real code and checks the model invariants."""

    def __init__(self, prog, out: Outcome):
        self.prog, self.out = prog, out
        self.dtype = prog["dtype"]
        self.g = P.TorchGraph(prog)
        self.dual_cut = P.run_dual(prog, cuts=prog["features"])
        self.dual_full = P.run_dual(prog)
        self.scale = max(self.dual_cut.max_abs, self.dual_full.max_abs)
        self.values0 = {ref: t.detach().clone() for ref, t in self.g.values.items()}
        self.last_call = None
        self.last_vec = None
        self.buffers = {}
        self.accumulated = self.created = False
        self.n_steps = 0
        self.dead = False

    # -------------------------------------------------------------------------------------------
    def _grad_state(self):
        return [(None, None) if l.grad is None else (l.grad.detach().clone(), l.grad.data_ptr()) for l in self.g.leaves]

    def _check_untouched(self, before, requested, label):
        out = self.out
        for ref, t in self.g.values.items():
            if not out.check(_same(t.detach(), self.values0[ref]), "tensor-value-modified", f"{label}: tensor {ref}"):
                self.dead = True
        for i, leaf in enumerate(self.g.leaves):
            gb, pb = before[i]
            if i in requested:
                if gb is not None and leaf.grad is not None:
                    # "add to an existing .grad instead of replacing it": the tensor that was there must receive the
                    # update in place (an optimizer, a fused buffer or the user may hold a reference / a view of it)
                    out.check(leaf.grad.data_ptr() == pb, "existing-grad-replaced-instead-of-accumulated",
                              f"{label}: leaf {i} already had a .grad; after the call .grad is another tensor")
                continue
            same = (leaf.grad is None and gb is None) or (leaf.grad is not None and gb is not None and _same(leaf.grad, gb)
                                                           and leaf.grad.data_ptr() == pb)
            out.check(same, "unrequested-grad-touched", f"{label}: leaf {i}")
        for ref, t in self.g.values.items():
            if ref[0] == "n" and t.requires_grad and not t.retains_grad:
                pass  # non-leaf tensors cannot hold .grad without retain_grad (excluded domain)

    def _check_fresh_storage(self, before, requested, rec, label):
        ptrs = {}
        for ref, t in self.g.values.items():
            ptrs.setdefault(t.untyped_storage().data_ptr(), []).append(f"tensor {ref}")
        for m in rec.raw_matrices:
            ptrs.setdefault(m.untyped_storage().data_ptr(), []).append("aggregator input")
        for o in getattr(rec, "raw_outputs", []):
            ptrs.setdefault(o.untyped_storage().data_ptr(), []).append("aggregator output")
        for i, leaf in enumerate(self.g.leaves):
            if leaf.grad is not None:
                ptrs.setdefault(leaf.grad.untyped_storage().data_ptr(), []).append(f"grad of leaf {i}")
        for i in requested:
            leaf = self.g.leaves[i]
            if before[i][0] is None and leaf.grad is not None and leaf.grad.numel() > 0:
                owners = ptrs[leaf.grad.untyped_storage().data_ptr()]
                self.out.check(len(owners) == 1, "created-grad-shares-memory",
                               f"{label}: the new .grad of leaf {i} shares its storage with {[o for o in owners if o != f'grad of leaf {i}']}")

    # -------------------------------------------------------------------------------------------
    def step(self, st_: dict):
        if self.dead:
            return
        out, g, prog = self.out, self.g, self.prog
        self.n_steps += 1
        op = st_["op"]
        if op == "repeat":
            if self.last_call is None:
                return
            out.cls("op:repeat")
            st_ = dict(self.last_call, _repeat=True)
            op = st_["op"]
        if op in ("zero", "none", "set", "setview", "mul", "add"):
            out.cls("op:edit")
            leaf = g.leaves[st_["leaf"]]
            if op == "zero" and leaf.grad is not None:
                leaf.grad.zero_()
            elif op == "none":
                leaf.grad = None
            elif op == "set":
                leaf.grad = torch.tensor(st_["vals"], dtype=leaf.dtype).reshape(leaf.shape)
            elif op == "setview":
                # a non-contiguous .grad: one column of a wider (fused) buffer, or a transposed view
                base = torch.tensor(st_["vals"], dtype=leaf.dtype).reshape(leaf.shape)
                if leaf.ndim == 2 and st_.get("transpose"):
                    buf = base.t().contiguous()
                    leaf.grad = buf.t()
                else:
                    buf = torch.stack([base, base + 1.0], dim=-1)
                    leaf.grad = buf[..., 0]
                self.buffers[st_["leaf"]] = buf
                out.cls("non-contiguous-grad")
            elif op == "mul" and leaf.grad is not None:
                leaf.grad.mul_(st_["c"])
            elif op == "add" and leaf.grad is not None:
                leaf.grad.add_(st_["c"])
            return
        before = self._grad_state()
        rec = jdcheck.make_recording(st_["agg"], self.dtype)
        rec.raw_outputs = []
        inner_forward = rec.inner.forward

        def fwd(matrix, _f=inner_forward):
            o = _f(matrix)
            rec.raw_outputs.append(o)
            return o

        rec.inner.forward = fwd
        label = f"step {self.n_steps} ({op})"
        try:
            if op == "backward":
                out.cls("op:backward")
                tensors = [g.get(r) for r in st_["outs"]]
                inputs = st_["inputs"]
                requested = sorted(P.leaf_deps(prog, st_["outs"])) if inputs is None else list(inputs)
                kw = {} if inputs is None else {"inputs": [g.leaves[i] for i in inputs]}
                backward(tensors, rec, retain_graph=True, parallel_chunk_size=st_["k"], **kw)
                blocks = jdcheck.oracle_rows(self.dual_full, prog, st_["outs"], requested)
                task_upd = {}
            else:
                out.cls("op:mtl")
                shared, tasks = prog["shared_leaves"], prog["task_leaves"]
                if st_.get("frozen"):
                    shared = []  # shared_params=[]: frozen trunk, heads-only step
                    out.cls("frozen-trunk")
                mtl_backward([g.get(l) for l in prog["losses"]], [g.get(f) for f in prog["features"]], rec,
                             tasks_params=[[g.leaves[p] for p in t] for t in tasks],
                             shared_params=[g.leaves[p] for p in shared], retain_graph=True, parallel_chunk_size=st_["k"])
                blocks, task_upd = c02.expected_updates(prog, self.dual_cut, self.dual_full, shared, tasks)
                requested = sorted(set(shared) | set(task_upd))
        except Exception as e:  # noqa: BLE001
            out.check(False, f"call-raises:{type(e).__name__}", f"{label}: {str(e)[:250]}")
            self.dead = True
            return
        before_t = {i: before[i][0] for i in range(len(before))}
        if blocks:
            if out.check(len(rec.calls) == 1, "aggregator-call-count", f"{label}: {len(rec.calls)}"):
                ok = jdcheck.check_deposit(out, "accumulate", blocks, g.leaves, before_t, rec.calls[0], self.dtype, self.scale)
                if not ok:
                    self.dead = True
                out.check(_same(rec.raw_matrices[0].detach(), rec.calls[0][0]), "aggregator-input-modified-after-call", label)
                if st_.get("_repeat") and self.last_vec is not None:
                    out.check(torch.equal(rec.calls[0][1], self.last_vec), "repeat-gives-different-update", label)
                self.last_vec = rec.calls[0][1]
        tol = jdcheck.deriv_tol(self.dtype, self.scale) * max(1, len(prog["losses"]))
        for p, upd in task_upd.items():
            leaf = g.leaves[p]
            if not out.check(leaf.grad is not None, "task-grad-missing", f"{label}: leaf {p}"):
                continue
            prev = before[p][0]
            if not out.check(tuple(leaf.grad.shape) == tuple(leaf.shape), "task-grad-shape", f"{label}: leaf {p}"):
                continue
            got = (leaf.grad - (prev if prev is not None else 0)).double().numpy()
            scale_prev = float(prev.abs().max()) if prev is not None and prev.numel() else 0.0
            out.within(float(np.abs(got - upd).max(initial=0.0)), tol + 8 * jdcheck.DERIV_TOL[self.dtype] * scale_prev,
                       "task-grad-not-accumulated", f"{label}: leaf {p}: increment {got.tolist()} vs {np.asarray(upd).tolist()}")
        self._check_untouched(before, set(requested), label)
        self._check_fresh_storage(before, requested, rec, label)
        for i in requested:
            gb = before[i][0]
            if gb is None:
                self.created = True
                out.cls("create-from-none")
            elif bool((gb != 0).any()):
                self.accumulated = True
                out.cls("accumulate-onto-existing")
        self.last_call = {k: v for k, v in st_.items() if k != "_repeat"}


def run_case(case) -> Outcome:
    out = Outcome()
    if case.get("kind") == "alias":
        return _run_alias(case, out)
    prog = case["prog"]
    ex = Exec(prog, out)
    if not jdcheck.scale_ok(prog["dtype"], ex.scale):
        out.excluded = "values-or-tangents-exceed-1e6"
        return out
    for st_ in case["steps"]:
        ex.step(st_)
    out.cls(prog["dtype"])
    out.evals = max(1, ex.n_steps)
    out.nontrivial = ex.accumulated and ex.created
    return out


def _machine(report):
    class GradHistory(RuleBasedStateMachine):
        def __init__(self):
            super().__init__()
            self.prog = None
            self.steps = []
            self.out = Outcome()
            self.ex = None

        @initialize(prog=P.mtl_programs(allow_around=False, max_tasks=3))
        def build(self, prog):
            self.prog = prog
            self.ex = Exec(prog, self.out)
            if not jdcheck.scale_ok(prog["dtype"], self.ex.scale):
                self.ex.dead = True
                self.out.excluded = "values-or-tangents-exceed-1e6"

        def _do(self, st_):
            self.steps.append(st_)
            self.ex.step(st_)

        @rule(seed=st.integers(0, 2**32 - 1))
        def call_backward(self, seed):
            rng = np.random.default_rng(seed)
            prog = self.prog
            roots = [list(r) for r in prog["losses"]] + [list(f) for f in prog["features"]]
            k = int(rng.integers(1, len(roots) + 1))
            outs = [roots[i] for i in sorted(rng.permutation(len(roots))[:k].tolist())]
            shapes = P.infer_shapes(prog)
            m = sum(P.numel(shapes[tuple(r)]) for r in outs)
            rg = [i for i, lf in enumerate(prog["leaves"]) if lf["rg"]]
            if rng.integers(0, 4) == 0:
                inputs = None
            else:
                kk = int(rng.integers(1, len(rg) + 1))
                inputs = [rg[i] for i in rng.permutation(len(rg))[:kk].tolist()]
            ks = [None, 1] + list(range(1, m + 2))
            self._do({"op": "backward", "outs": outs, "inputs": inputs, "agg": jdcheck.jd_aggregator(rng, m),
                      "k": ks[int(rng.integers(0, len(ks)))]})

        @rule(seed=st.integers(0, 2**32 - 1))
        def call_mtl_backward(self, seed):
            rng = np.random.default_rng(seed)
            m = len(self.prog["losses"])
            ks = [None, 1] + list(range(1, m + 2))
            self._do({"op": "mtl", "agg": jdcheck.jd_aggregator(rng, m, 2), "k": ks[int(rng.integers(0, len(ks)))],
                      "frozen": bool(rng.integers(0, 5) == 0)})

        @rule(seed=st.integers(0, 2**32 - 1), kind=st.sampled_from(["zero", "none", "set", "setview", "setview", "mul", "add"]))
        def edit_grad(self, seed, kind):
            rng = np.random.default_rng(seed)
            rg = [i for i, lf in enumerate(self.prog["leaves"]) if lf["rg"]]
            i = rg[int(rng.integers(0, len(rg)))]
            st_ = {"op": kind, "leaf": i}
            if kind == "setview":
                st_["transpose"] = bool(rng.integers(0, 2))
            if kind in ("set", "setview"):
                st_["vals"] = (rng.integers(-6, 7, size=P.numel(self.prog["leaves"][i]["shape"])) / 2.0).tolist()
            if kind in ("mul", "add"):
                st_["c"] = [-2.0, -0.5, 0.5, 3.0][int(rng.integers(0, 4))]
            self._do(st_)

        @precondition(lambda self: self.ex is not None and self.ex.last_call is not None)
        @rule()
        def repeat_last_call(self):
            self._do({"op": "repeat"})

        def teardown(self):
            if self.prog is None:
                return
            out = self.out
            out.cls(self.prog["dtype"])
            out.evals = max(1, self.ex.n_steps)
            out.nontrivial = self.ex.accumulated and self.ex.created
            report({"prog": self.prog, "steps": self.steps}, out)

    return GradHistory


@st.composite
def _alias_case(draw):
    rng = np.random.default_rng(draw(st.integers(0, 2**32 - 1)))
    n = int(rng.integers(1, 6))
    name = ["Constant", "Mean", "UPGrad", "Sum"][int(rng.integers(0, 4))]
    spec = {"name": name}
    if name == "Constant":
        spec["weights"] = [float(rng.integers(-3, 4)) + 0.25, float(rng.integers(-3, 4)) - 0.5]
    return {"kind": "alias", "seed": int(rng.integers(0, 2**31)), "n": n, "agg": spec, "dtype": ["float32", "float64"][int(rng.integers(0, 2))],
            "mode": ["same-tensor", "overlapping-views", "adjacent-views"][int(rng.integers(0, 3))],
            "api": ["backward", "mtl"][int(rng.integers(0, 2))], "k": [None, 1, 2][int(rng.integers(0, 3))]}


def _run_alias(case, out):
    """Two requested tensors whose pre-existing .grad fields share memory (the same tensor, overlapping or adjacent views
    of one flat buffer - as optimisers with a fused gradient buffer set them up). 'Add to an existing .grad' then means:
    the buffer receives BOTH contributions, exactly as torch.autograd.backward's in-place accumulation leaves it."""
    tdt = getattr(torch, case["dtype"])
    rng = np.random.default_rng(case["seed"])
    n, mode = case["n"], case["mode"]
    a = torch.tensor(rng.integers(-4, 5, size=n) / 2.0, dtype=tdt, requires_grad=True)
    b = torch.tensor(rng.integers(-4, 5, size=n) / 2.0, dtype=tdt, requires_grad=True)
    c1, c2, c3 = (torch.tensor(rng.integers(-4, 5, size=n) / 2.0, dtype=tdt) for _ in range(3))
    shift = {"same-tensor": 0, "overlapping-views": max(1, n // 2), "adjacent-views": n}[mode]
    if mode == "overlapping-views" and n == 1:
        shift = 0
    buf = torch.tensor(rng.integers(-6, 7, size=n + shift + 1) / 2.0, dtype=tdt)
    buf0 = buf.clone()
    if shift == 0:
        g = buf[:n]
        a.grad, b.grad = g, g
    else:
        a.grad, b.grad = buf[:n], buf[shift : shift + n]
    out.cls("aliased-grads:" + mode, "aliased-grads:" + case["api"], case["dtype"])
    rec = jdcheck.make_recording(case["agg"], case["dtype"])
    Ja = torch.stack([c1, 2 * a.detach()])
    Jb = torch.stack([c2, -c3])
    try:
        if case["api"] == "backward":
            y = torch.stack([(a * c1).sum() + (b * c2).sum(), (a**2).sum() - (b * c3).sum()])
            backward([y], rec, inputs=[a, b], parallel_chunk_size=case["k"])
        else:
            f = torch.cat([a, b]) * 1.0
            l1 = (f[:n] * c1).sum() + (f[n:] * c2).sum()
            l2 = (f[:n] ** 2).sum() - (f[n:] * c3).sum()
            mtl_backward([l1, l2], f, rec, tasks_params=[[], []], shared_params=[a, b], parallel_chunk_size=case["k"])
    except Exception as e:  # noqa: BLE001
        out.check(False, f"call-raises:{type(e).__name__}", str(e)[:250])
        return out
    if not out.check(len(rec.calls) == 1 and tuple(rec.calls[0][0].shape) == (2, 2 * n), "aggregator-call-count", f"{len(rec.calls)} calls"):
        return out
    M, r = rec.calls[0]
    tolJ = 64 * eps_of(case["dtype"]) * max(1.0, float(M.abs().max()))
    if float((M - torch.cat([Ja, Jb], 1)).abs().max()) <= tolJ:
        ra, rb = r[:n], r[n:]
    elif float((M - torch.cat([Jb, Ja], 1)).abs().max()) <= tolJ:
        rb, ra = r[:n], r[n:]
    else:
        out.check(False, "accumulate:jacobian-matrix", f"aggregator saw {M.tolist()}")
        return out
    want = buf0.double().clone()
    want[:n] += ra.double()
    want[shift : shift + n] += rb.double()
    ok_obj = a.grad is not None and b.grad is not None and a.grad.data_ptr() == buf.data_ptr() and b.grad.data_ptr() == buf[shift:].data_ptr()
    out.check(ok_obj, "existing-grad-replaced-instead-of-accumulated", f"{mode}: a .grad no longer lives in the buffer it was given")
    err = float((buf.double() - want).abs().max())
    out.within(err, 8 * eps_of(case["dtype"]) * float(want.abs().max() + r.abs().max() + 1), "aliased-grads:contribution-lost",
               f"{mode}: buffer {buf.tolist()} vs initial + both contributions {want.tolist()}")
    out.nontrivial = bool((ra != 0).any() and (rb != 0).any())
    return out


def parts(tier):
    n = 480 if tier == "quick" else 10_000
    steps = 12 if tier == "quick" else 30
    return [Part("histories", "machine", n=n, machine=_machine, steps=steps),
            Part("aliased_grads", "given", n=600 if tier == "quick" else 20_000, strategy=_alias_case)]
