"""C05 - With linear aggregators, Jacobian descent coincides with PyTorch autograd."""

import numpy as np
import torch
from hypothesis import strategies as st

from torchjd import backward, mtl_backward
from torchjd.aggregation import Constant, Mean, Sum
from props import c02
from vlib import jdcheck, programs as P
from vlib.runner import Outcome, Part

ID = "C05"
RULE = (
    "Differential testing against torch.autograd on twin graphs (two executions of the same generated IR). backward: "
    "random programs as in C01 with Constant(w) (w with negative, zero and large entries), Sum(), Mean(), drawn "
    "input subsets / None, chunk sizes, pre-existing .grad; the twin runs torch.autograd.backward(tensors, "
    "grad_tensors = w split per tensor (ones for Sum, 1/m for Mean), inputs = same). mtl_backward: trunk/heads "
    "programs as in C02; on the twin the shared leaves receive autograd.backward(features, grad_tensors = sum_i w_i "
    "dloss_i/dF) and the task leaves loss_i.backward(inputs = task_params_i) accumulated over the tasks. Every "
    "leaf's .grad must agree (1e-11 relative in float64, 1e-4 in float32, relative to the magnitudes involved); "
    "leaves outside the requested sets must stay untouched on both sides; for a requested input that does not "
    "influence the outputs torchjd's zeros are compared with torch's None as zeros (C01 specifies the zeros). "
    "Non-trivial = >= 2 rows with distinct weights and >= 2 inputs/parameters. Distinct = distinct case."
    " Also: 1/8 of the backward cases list one tensor twice (torchjd may refuse with ValueError leaving every .grad untouched, or "
    "must agree with autograd); 1/8 of the mtl cases pass shared_params=[]; part `extreme_scales`: y = C x with |C_ij| ~ 0.45 max(dtype)/sum|w| "
    "or ~ 8 tiny(dtype), weights such that autograd's combination is finite."
)
ASSUMPTIONS = ["torch.autograd is the reference; both sides run on separately built but identical graphs"]
LEVEL_TEXT = "Generated-input differential testing against torch.autograd on twin graphs. No proof."
LEVEL_NOTE = "Trusted: torch.autograd.backward / grad as the reference implementation of vector-Jacobian products."
TECHNIQUE = "property-based differential testing (Hypothesis) against torch.autograd on twin graphs"
REQUIRED_CLASSES = {"backward": 1, "mtl": 1, "Constant": 1, "Sum": 1, "Mean": 1, "inputs=None": 1, "duplicate-in-tensors": 1,
                    "extreme:huge": 1, "extreme:tiny": 1}

REL = {"float64": 1e-11, "float32": 1e-4}


def _weights(rng, m):
    kind = int(rng.integers(0, 4))
    if kind == 0:
        w = rng.integers(-3, 4, size=m).astype(float)
    elif kind == 1:
        w = rng.standard_normal(m) * 10.0 ** rng.uniform(-2, 3)
    else:
        w = rng.standard_normal(m)
        w[rng.integers(0, m)] = 0.0
    return w.tolist()


@st.composite
def _case(draw):
    rng = np.random.default_rng(draw(st.integers(0, 2**32 - 1)))
    kind = draw(st.sampled_from(["backward", "backward", "mtl"]))
    if kind == "backward":
        prog = draw(P.programs(max_leaves=4, max_nodes=8, max_outputs=3, min_leaves=draw(st.sampled_from([1, 2, 2, 3]))))
        shapes = P.infer_shapes(prog)
        m = sum(P.numel(shapes[tuple(r)]) for r in prog["outputs"])
        rg = [i for i, lf in enumerate(prog["leaves"]) if lf["rg"]]
        if rng.integers(0, 5) == 0:
            inputs = None
        else:
            k = [len(rg), int(rng.integers(1, len(rg) + 1))][int(rng.integers(0, 2))]
            inputs = [rg[i] for i in rng.permutation(len(rg))][:k]
        extra = {"inputs": inputs}
        if rng.integers(0, 8) == 0:
            # the same tensor listed twice in `tensors`: torch.autograd counts it twice; torchjd may refuse the call
            # (ValueError, nothing written) or agree with autograd - never silently do something else
            k = int(rng.integers(0, len(prog["outputs"])))
            extra["dup_output"] = [k, int(rng.integers(0, len(prog["outputs"]) + 1))]
            m += P.numel(shapes[tuple(prog["outputs"][k])])
    else:
        prog = draw(P.mtl_programs())
        m = len(prog["losses"])
        extra = {"explicit_tasks": bool(rng.integers(0, 3) > 0), "explicit_shared": bool(rng.integers(0, 3) > 0),
                 "features_as_tensor": bool(rng.integers(0, 2)), "retain": False,
                 "frozen_trunk": bool(rng.integers(0, 8) == 0)}  # shared_params=[] passed explicitly (heads-only training)
    agg = ["Constant", "Constant", "Sum", "Mean"][int(rng.integers(0, 4))]
    chunks = [None, None, 1] + list(range(1, m + 3))
    return {"kind": kind, "prog": prog, "agg": agg, "w": _weights(rng, m), "chunk": chunks[int(rng.integers(0, len(chunks)))],
            "pre": jdcheck.pre_grads(rng, prog), **extra}


@st.composite
def _extreme_case(draw):
    """Linear programs y = C x whose Jacobian entries sit at the far ends of the floating-point range while the
    weighted combination itself is representable: autograd's sum_i w_i C_ij is finite, so must torchjd's be."""
    rng = np.random.default_rng(draw(st.integers(0, 2**32 - 1)))
    m, n = int(rng.integers(2, 7)), int(rng.integers(1, 5))
    agg = ["Constant", "Mean", "Mean", "Sum"][int(rng.integers(0, 4))]
    w = _weights(rng, m) if agg == "Constant" else ([1.0] * m if agg == "Sum" else [1.0 / m] * m)
    if not any(w):
        w[0] = 1.0
    return {"kind": "extreme", "api": ["backward", "mtl"][int(rng.integers(0, 2))], "seed": int(rng.integers(0, 2**31)), "m": m, "n": n,
            "agg": agg, "w": w, "dtype": ["float32", "float64"][int(rng.integers(0, 2))], "end": ["huge", "huge", "tiny"][int(rng.integers(0, 3))],
            "same_sign": bool(rng.integers(0, 2)), "chunk": [None, 1, 2][int(rng.integers(0, 3))]}


def _run_extreme(case, out):
    dtype, tdt = case["dtype"], getattr(torch, case["dtype"])
    rng = np.random.default_rng(case["seed"])
    m, n = case["m"], case["n"]
    w64 = np.array(case["w"], dtype=np.float64)
    fmax = float(torch.finfo(tdt).max)
    # |sum_i w_i C_ij| <= sum_i |w_i| |C_ij| <= 0.45 fmax: every partial sum of the weighted combination is finite,
    # whereas the plain column sums of C (up to m * mag) are not representable when sum|w_i| <= 1
    mag = 0.45 * fmax / max(float(np.abs(w64).sum()), 1e-3) if case["end"] == "huge" else float(torch.finfo(tdt).tiny) * 8
    mag = min(mag, 0.45 * fmax)
    C = mag * rng.uniform(0.5, 1.0, size=(m, n)) * (1.0 if case["same_sign"] else rng.choice([-1.0, 1.0], size=(m, n)))
    A, w = _agg(case, m, tdt)
    out.cls("extreme:" + case["end"], "extreme:" + case["api"], case["agg"], dtype)
    grads = []
    for side in ("torchjd", "autograd"):
        x = torch.tensor(rng.standard_normal(n) if side == "torchjd" else np.zeros(n), dtype=tdt, requires_grad=True)
        Ct = torch.tensor(C, dtype=tdt)
        if case["api"] == "backward":
            y = Ct @ x
            k = m // 2
            tensors = [y[:k], y[k:]] if k else [y]
            if side == "torchjd":
                try:
                    backward(tensors, A, inputs=[x], parallel_chunk_size=case["chunk"])
                except Exception as e:  # noqa: BLE001
                    out.check(False, f"backward-raises:{type(e).__name__}", str(e)[:300])
                    return out
            else:
                torch.autograd.backward(tensors, [w[:k], w[k:]] if k else [w])
        else:
            feat = x * 1.0
            losses = [(Ct[i] * feat).sum() for i in range(m)]
            if side == "torchjd":
                try:
                    mtl_backward(losses, feat, A, tasks_params=[[] for _ in range(m)], shared_params=[x], parallel_chunk_size=case["chunk"])
                except Exception as e:  # noqa: BLE001
                    out.check(False, f"mtl_backward-raises:{type(e).__name__}", str(e)[:300])
                    return out
            else:
                cot = sum(wi * torch.autograd.grad(loss, feat, retain_graph=True)[0] for wi, loss in zip(w, losses))
                torch.autograd.backward(feat, cot, inputs=[x])
        grads.append(x.grad)
    ga, gb = grads
    if not out.check(ga is not None and tuple(ga.shape) == (n,), "extreme:grad-missing", str(ga)):
        return out
    if not bool(torch.isfinite(gb).all()):
        out.excluded = "autograd-result-not-finite"
        return out
    scale = float((np.abs(w.double().numpy())[:, None] * np.abs(C)).sum(0).max())
    err = float((ga.double() - gb.double()).abs().max()) if bool(torch.isfinite(ga).all()) else float("inf")
    out.within(err, REL[dtype] * scale + 16 * m * float(torch.finfo(tdt).smallest_normal) * float(torch.finfo(tdt).eps),
               f"extreme:{case['api']}:differs-from-autograd", f"torchjd {ga.tolist()} vs torch.autograd {gb.tolist()} (|C| ~ {mag:.2e}, w = {case['w']})")
    out.nontrivial = True
    return out


def parts(tier):
    n = 5_000 if tier == "quick" else 120_000
    return [Part("generated", "given", n=n, strategy=_case),
            Part("extreme_scales", "given", n=600 if tier == "quick" else 20_000, strategy=_extreme_case)]


def _agg(case, m, tdt):
    if case["agg"] == "Constant":
        w = torch.tensor(case["w"], dtype=tdt)
        return Constant(w), w
    if case["agg"] == "Sum":
        return Sum(), torch.ones(m, dtype=tdt)
    return Mean(), torch.full((m,), 1.0 / m, dtype=tdt)


def _compare(out, label, g1, g2, requested, before, dtype, scale):
    for i, (a, b) in enumerate(zip(g1.leaves, g2.leaves)):
        ga, gb = a.grad, b.grad
        if i in requested:
            if not out.check(ga is not None, f"{label}:grad-missing", f"requested leaf {i} has no .grad after the torchjd call"):
                continue
            if gb is None:
                gb = torch.zeros_like(a) if before[i] is None else before[i]
            if not out.check(tuple(ga.shape) == tuple(a.shape), f"{label}:grad-shape", f"leaf {i}: .grad of shape {tuple(ga.shape)}"):
                continue
            err = float((ga.double() - gb.double()).abs().max()) if ga.numel() else 0.0
            tol = REL[dtype] * scale
            out.within(err, tol, f"{label}:differs-from-autograd",
                       f"leaf {i}: torchjd {ga.tolist()} vs torch.autograd {gb.tolist()}")
        else:
            same = (ga is None and before[i] is None) or (ga is not None and before[i] is not None and torch.equal(ga, before[i]))
            out.check(same, f"{label}:unrequested-leaf-touched", f"leaf {i}")


def run_case(case) -> Outcome:
    out = Outcome()
    if case.get("kind") == "extreme":
        return _run_extreme(case, out)
    prog, dtype = case["prog"], case["prog"]["dtype"]
    tdt = getattr(torch, dtype)
    dual = P.run_dual(prog)
    if not jdcheck.scale_ok(dtype, dual.max_abs):
        out.excluded = "values-or-tangents-exceed-1e6"
        return out
    out.cls(case["kind"], case["agg"], dtype)
    g1, g2 = P.TorchGraph(prog), P.TorchGraph(prog)
    before = jdcheck.set_pre_grads(g1.leaves, case["pre"])
    jdcheck.set_pre_grads(g2.leaves, case["pre"])
    if case["kind"] == "backward":
        refs = list(prog["outputs"])
        if case.get("dup_output"):
            refs.insert(case["dup_output"][1], refs[case["dup_output"][0]])
            out.cls("duplicate-in-tensors")
        tensors1 = [g1.get(r) for r in refs]
        tensors2 = [g2.get(r) for r in refs]
        m = sum(t.numel() for t in tensors1)
        A, w = _agg(case, m, tdt)
        inputs = case["inputs"]
        requested = set(P.leaf_deps(prog, prog["outputs"])) if inputs is None else set(inputs)
        if inputs is None:
            out.cls("inputs=None")
        kw1 = {} if inputs is None else {"inputs": [g1.leaves[i] for i in inputs]}
        kw2 = {} if inputs is None else {"inputs": [g2.leaves[i] for i in inputs]}
        try:
            backward(tensors1, A, parallel_chunk_size=case["chunk"], **kw1)
        except Exception as e:  # noqa: BLE001
            if case.get("dup_output") and isinstance(e, ValueError):
                out.cls("duplicate-in-tensors:refused")
                untouched = all((a.grad is None and before[i] is None) or (a.grad is not None and before[i] is not None and torch.equal(a.grad, before[i]))
                                for i, a in enumerate(g1.leaves))
                out.check(untouched, "backward:refused-call-wrote-grad", "duplicate tensor refused after a .grad was written")
                return out
            out.check(False, f"backward-raises:{type(e).__name__}", str(e)[:300])
            return out
        gts, off = [], 0
        for t in tensors2:
            gts.append(w[off : off + t.numel()].reshape(t.shape))
            off += t.numel()
        torch.autograd.backward(tensors2, gts, **kw2)
        scale = max(1.0, float(w.abs().max())) * max(1.0, dual.max_abs) * max(1, m)
        _compare(out, "backward", g1, g2, requested, before, dtype, scale)
        out.nontrivial = m >= 2 and len(requested) >= 2 and len(set(w.tolist())) >= 2
        return out

    # mtl_backward
    c2case = dict(case)
    if prog["around"]:
        c2case.update(explicit_tasks=True, retain=True)
    shared, tasks, overlap = c02.plan(c2case)
    if overlap:
        c2case.update(explicit_tasks=True, explicit_shared=True)
        shared, tasks, overlap = c02.plan(c2case)
    m = len(prog["losses"])
    A, w = _agg(case, m, tdt)
    feats1 = [g1.get(f) for f in prog["features"]]
    feats2 = [g2.get(f) for f in prog["features"]]
    kw = {}
    if c2case["explicit_tasks"]:
        kw["tasks_params"] = [[g1.leaves[p] for p in t] for t in tasks]
    if c2case["explicit_shared"]:
        kw["shared_params"] = [g1.leaves[p] for p in shared]
    try:
        mtl_backward([g1.get(l) for l in prog["losses"]], feats1[0] if (case["features_as_tensor"] and len(feats1) == 1) else feats1,
                     A, retain_graph=c2case["retain"], parallel_chunk_size=case["chunk"], **kw)
    except Exception as e:  # noqa: BLE001
        out.check(False, f"mtl_backward-raises:{type(e).__name__}", str(e)[:300])
        return out
    losses2 = [g2.get(l) for l in prog["losses"]]
    cot = [torch.zeros_like(f) for f in feats2]
    for wi, loss in zip(w, losses2):
        grads = torch.autograd.grad(loss, feats2, retain_graph=True, allow_unused=True)
        for k, gk in enumerate(grads):
            if gk is not None:
                cot[k] = cot[k] + wi * gk
    for t, (loss, plist) in enumerate(zip(losses2, tasks)):
        if plist:
            loss.backward(inputs=[g2.leaves[p] for p in plist], retain_graph=True)
    if shared:
        torch.autograd.backward(feats2, cot, inputs=[g2.leaves[p] for p in shared], retain_graph=True)
    requested = set(shared) | {p for t in tasks for p in t}
    scale = max(1.0, float(w.abs().max())) * max(1.0, dual.max_abs) ** 2 * max(1, m)
    _compare(out, "mtl", g1, g2, requested, before, dtype, scale)
    out.cls("mtl")
    out.nontrivial = m >= 2 and len(requested) >= 2 and len(set(w.tolist())) >= 2
    return out
