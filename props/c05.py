"""C05 - With linear aggregators, Jacobian descent coincides with PyTorch autograd."""

import numpy as np
import torch
from hypothesis import strategies as st

from torchjd import backward, mtl_backward
from torchjd.aggregation import Constant, Mean, Sum
from props import c02
from vlib import jdcheck, programs as P
from vlib.runner import Outcome, Part

ID = "C05"
RULE = (
    "Differential testing against torch.autograd on twin graphs (two executions of the same generated IR). backward: "
    "random programs as in C01 with Constant(w) (w with negative, zero and large entries), Sum(), Mean(), drawn "
    "input subsets / None, chunk sizes, pre-existing .grad; the twin runs torch.autograd.backward(tensors, "
    "grad_tensors = w split per tensor (ones for Sum, 1/m for Mean), inputs = same). mtl_backward: trunk/heads "
    "programs as in C02; on the twin the shared leaves receive autograd.backward(features, grad_tensors = sum_i w_i "
    "dloss_i/dF) and the task leaves loss_i.backward(inputs = task_params_i) accumulated over the tasks. Every "
    "leaf's .grad must agree (1e-11 relative in float64, 1e-4 in float32, relative to the magnitudes involved); "
    "leaves outside the requested sets must stay untouched on both sides; for a requested input that does not "
    "influence the outputs torchjd's zeros are compared with torch's None as zeros (C01 specifies the zeros). "
    "Non-trivial = >= 2 rows with distinct weights and >= 2 inputs/parameters. Distinct = distinct case."
)
ASSUMPTIONS = ["torch.autograd is the reference; both sides run on separately built but identical graphs"]
LEVEL_TEXT = "Generated-input differential testing against torch.autograd on twin graphs. No proof."
LEVEL_NOTE = "Trusted: torch.autograd.backward / grad as the reference implementation of vector-Jacobian products."
TECHNIQUE = "property-based differential testing (Hypothesis) against torch.autograd on twin graphs"
REQUIRED_CLASSES = {"backward": 1, "mtl": 1, "Constant": 1, "Sum": 1, "Mean": 1, "inputs=None": 1}

REL = {"float64": 1e-11, "float32": 1e-4}


def _weights(rng, m):
    kind = int(rng.integers(0, 4))
    if kind == 0:
        w = rng.integers(-3, 4, size=m).astype(float)
    elif kind == 1:
        w = rng.standard_normal(m) * 10.0 ** rng.uniform(-2, 3)
    else:
        w = rng.standard_normal(m)
        w[rng.integers(0, m)] = 0.0
    return w.tolist()


@st.composite
def _case(draw):
    rng = np.random.default_rng(draw(st.integers(0, 2**32 - 1)))
    kind = draw(st.sampled_from(["backward", "backward", "mtl"]))
    if kind == "backward":
        prog = draw(P.programs(max_leaves=4, max_nodes=8, max_outputs=3, min_leaves=draw(st.sampled_from([1, 2, 2, 3]))))
        shapes = P.infer_shapes(prog)
        m = sum(P.numel(shapes[tuple(r)]) for r in prog["outputs"])
        rg = [i for i, lf in enumerate(prog["leaves"]) if lf["rg"]]
        if rng.integers(0, 5) == 0:
            inputs = None
        else:
            k = [len(rg), int(rng.integers(1, len(rg) + 1))][int(rng.integers(0, 2))]
            inputs = [rg[i] for i in rng.permutation(len(rg))][:k]
        extra = {"inputs": inputs}
    else:
        prog = draw(P.mtl_programs())
        m = len(prog["losses"])
        extra = {"explicit_tasks": bool(rng.integers(0, 3) > 0), "explicit_shared": bool(rng.integers(0, 3) > 0),
                 "features_as_tensor": bool(rng.integers(0, 2)), "retain": False}
    agg = ["Constant", "Constant", "Sum", "Mean"][int(rng.integers(0, 4))]
    chunks = [None, None, 1] + list(range(1, m + 3))
    return {"kind": kind, "prog": prog, "agg": agg, "w": _weights(rng, m), "chunk": chunks[int(rng.integers(0, len(chunks)))],
            "pre": jdcheck.pre_grads(rng, prog), **extra}


def parts(tier):
    n = 5_000 if tier == "quick" else 120_000
    return [Part("generated", "given", n=n, strategy=_case)]


def _agg(case, m, tdt):
    if case["agg"] == "Constant":
        w = torch.tensor(case["w"], dtype=tdt)
        return Constant(w), w
    if case["agg"] == "Sum":
        return Sum(), torch.ones(m, dtype=tdt)
    return Mean(), torch.full((m,), 1.0 / m, dtype=tdt)


def _compare(out, label, g1, g2, requested, before, dtype, scale):
    for i, (a, b) in enumerate(zip(g1.leaves, g2.leaves)):
        ga, gb = a.grad, b.grad
        if i in requested:
            if not out.check(ga is not None, f"{label}:grad-missing", f"requested leaf {i} has no .grad after the torchjd call"):
                continue
            if gb is None:
                gb = torch.zeros_like(a) if before[i] is None else before[i]
            if not out.check(tuple(ga.shape) == tuple(a.shape), f"{label}:grad-shape", f"leaf {i}: .grad of shape {tuple(ga.shape)}"):
                continue
            err = float((ga.double() - gb.double()).abs().max()) if ga.numel() else 0.0
            tol = REL[dtype] * scale
            out.within(err, tol, f"{label}:differs-from-autograd",
                       f"leaf {i}: torchjd {ga.tolist()} vs torch.autograd {gb.tolist()}")
        else:
            same = (ga is None and before[i] is None) or (ga is not None and before[i] is not None and torch.equal(ga, before[i]))
            out.check(same, f"{label}:unrequested-leaf-touched", f"leaf {i}")


def run_case(case) -> Outcome:
    out = Outcome()
    prog, dtype = case["prog"], case["prog"]["dtype"]
    tdt = getattr(torch, dtype)
    dual = P.run_dual(prog)
    if not jdcheck.scale_ok(dtype, dual.max_abs):
        out.excluded = "values-or-tangents-exceed-1e6"
        return out
    out.cls(case["kind"], case["agg"], dtype)
    g1, g2 = P.TorchGraph(prog), P.TorchGraph(prog)
    before = jdcheck.set_pre_grads(g1.leaves, case["pre"])
    jdcheck.set_pre_grads(g2.leaves, case["pre"])
    if case["kind"] == "backward":
        tensors1 = [g1.get(r) for r in prog["outputs"]]
        tensors2 = [g2.get(r) for r in prog["outputs"]]
        m = sum(t.numel() for t in tensors1)
        A, w = _agg(case, m, tdt)
        inputs = case["inputs"]
        requested = set(P.leaf_deps(prog, prog["outputs"])) if inputs is None else set(inputs)
        if inputs is None:
            out.cls("inputs=None")
        kw1 = {} if inputs is None else {"inputs": [g1.leaves[i] for i in inputs]}
        kw2 = {} if inputs is None else {"inputs": [g2.leaves[i] for i in inputs]}
        try:
            backward(tensors1, A, parallel_chunk_size=case["chunk"], **kw1)
        except Exception as e:  # noqa: BLE001
            out.check(False, f"backward-raises:{type(e).__name__}", str(e)[:300])
            return out
        gts, off = [], 0
        for t in tensors2:
            gts.append(w[off : off + t.numel()].reshape(t.shape))
            off += t.numel()
        torch.autograd.backward(tensors2, gts, **kw2)
        scale = max(1.0, float(w.abs().max())) * max(1.0, dual.max_abs) * max(1, m)
        _compare(out, "backward", g1, g2, requested, before, dtype, scale)
        out.nontrivial = m >= 2 and len(requested) >= 2 and len(set(w.tolist())) >= 2
        return out

    # mtl_backward
    c2case = dict(case)
    if prog["around"]:
        c2case.update(explicit_tasks=True, retain=True)
    shared, tasks, overlap = c02.plan(c2case)
    if overlap:
        c2case.update(explicit_tasks=True, explicit_shared=True)
        shared, tasks, overlap = c02.plan(c2case)
    m = len(prog["losses"])
    A, w = _agg(case, m, tdt)
    feats1 = [g1.get(f) for f in prog["features"]]
    feats2 = [g2.get(f) for f in prog["features"]]
    kw = {}
    if c2case["explicit_tasks"]:
        kw["tasks_params"] = [[g1.leaves[p] for p in t] for t in tasks]
    if c2case["explicit_shared"]:
        kw["shared_params"] = [g1.leaves[p] for p in shared]
    try:
        mtl_backward([g1.get(l) for l in prog["losses"]], feats1[0] if (case["features_as_tensor"] and len(feats1) == 1) else feats1,
                     A, retain_graph=c2case["retain"], parallel_chunk_size=case["chunk"], **kw)
    except Exception as e:  # noqa: BLE001
        out.check(False, f"mtl_backward-raises:{type(e).__name__}", str(e)[:300])
        return out
    losses2 = [g2.get(l) for l in prog["losses"]]
    cot = [torch.zeros_like(f) for f in feats2]
    for wi, loss in zip(w, losses2):
        grads = torch.autograd.grad(loss, feats2, retain_graph=True, allow_unused=True)
        for k, gk in enumerate(grads):
            if gk is not None:
                cot[k] = cot[k] + wi * gk
    for t, (loss, plist) in enumerate(zip(losses2, tasks)):
        if plist:
            loss.backward(inputs=[g2.leaves[p] for p in plist], retain_graph=True)
    if shared:
        torch.autograd.backward(feats2, cot, inputs=[g2.leaves[p] for p in shared], retain_graph=True)
    requested = set(shared) | {p for t in tasks for p in t}
    scale = max(1.0, float(w.abs().max())) * max(1.0, dual.max_abs) ** 2 * max(1, m)
    _compare(out, "mtl", g1, g2, requested, before, dtype, scale)
    out.cls("mtl")
    out.nontrivial = m >= 2 and len(requested) >= 2 and len(set(w.tolist())) >= 2
    return out
