"""C09 - Linear under scaling: each gradient weighs in proportionally to its norm."""

import numpy as np
import torch
from hypothesis import strategies as st

from vlib import aggs, refs, relations as rel
from vlib.matrices import SEEDS, build, eps_of, smax, widen
from vlib.runner import RAISED, Outcome, Part

ID = "C09"
RULE = (
    "Hypothesis-generated (aggregator, J, c1, c2, a, b): c entries 10^U(-3,3), a, b in (0.1, 10), J Gaussian / "
    "conflicting / prescribed-SVD (full row rank, cond <= 30, for ConFIG and UPGrad), global scale 10^{0,+-2,+-3,-7,-10}, a quarter widened by 600 Gaussian columns, the three related calls made on ONE "
    "aggregator instance, "
    "1<=m<=6, 1<=n<=9. Oracle "
    "(metamorphic): |A(diag(a c1 + b c2) J) - a A(diag(c1) J) - b A(diag(c2) J)| <= K eps sum of scales for Mean, "
    "Sum, Constant(drawn weights), ConFIG(pref), PCGrad (scripted schedule; branch ties included, family `orthoblock`) and "
    "Random (equal seeds). UPGrad(pref): for every rung of the ladder reg_eps in {1e-2,1e-4,...,1e-12} (float64; "
    "float32 only rungs >= 1e-4) on the same (J, c1, c2, a, b): defect <= C sqrt(reg_eps) sum_k coef_k kappa_k s_k "
    "|w_k| + fp with C = 2 and kappa_k = s_k / min_i |row_i| the row imbalance of the scaled matrix (the statement "
    "leaves the constant open; this reading is weaker than any fixed-constant one). Non-trivial = c1 not parallel "
    "to c2 and m >= 2 (UPGrad: additionally the projection is active, i.e. A differs from the plain preference "
    "combination). Distinct = distinct (aggregator configuration, J, c1, c2, a, b)."
    " ConFIG also on tall (m > n) matrices; half of the PCGrad cases run under torch.manual_seed only (no scripted randperm), on ONE instance."
)
ASSUMPTIONS = [
    "UPGrad defect constant C = 2 (calibrated worst 0.06) with the row-imbalance factor kappa",
    "ConFIG on full-row-rank matrices of bounded condition number (of the unit-row matrix)",
]
LEVEL_TEXT = "Generated-input search with a three-run metamorphic relation; UPGrad over a reg_eps ladder down to 1e-12. No proof."
LEVEL_NOTE = "Trusted: float64 evaluation of scales/margins; constants K (fp) and C (regularisation defect) calibrated >= 10x."
TECHNIQUE = "property-based testing (Hypothesis) with a metamorphic linearity relation over three related inputs"
REQUIRED_CLASSES = {"UPGrad": 1, "UPGrad:active": 1, "PCGrad": 1, "ConFIG": 1, "reg=1e-12": 1}

NAMES = ["Mean", "Sum", "Constant", "ConFIG", "PCGrad", "Random", "UPGrad", "UPGrad"]
LADDER = [1e-2, 1e-4, 1e-6, 1e-8, 1e-10, 1e-12]
C_REG = 2.0


@st.composite
def _case(draw):
    name = draw(st.sampled_from(NAMES))
    dtype = draw(st.sampled_from(["float64", "float64", "float32"]))
    rng = np.random.default_rng(draw(SEEDS))
    m = draw(st.integers(1, 6))
    full = name in ("ConFIG", "UPGrad")
    # ConFIG's unit rows do not depend on c, so it is linear in c on tall (m > n, rank n) matrices too: a third of its cases
    tall = name == "ConFIG" and m >= 2 and draw(st.sampled_from([True, False, False]))
    n = draw(st.integers(1, m - 1)) if tall else draw(st.integers(m if full else 1, 9))
    if full:
        J = build("svd", m, n, rng, {"cond": 10.0 ** draw(st.floats(0, 1.4))})
        fam = "svd_tall" if tall else "svd_full"
    else:
        fam = draw(st.sampled_from(["gauss", "conflict", "gauss", "grid", "orthoblock", "orthoblock"]))
        J = rng.integers(-4, 5, size=(m, n)) / 2.0 if fam == "grid" else build(fam, m, n, rng, {"eps": 1e-2, "delta": 1e-2})
    J = J * 10.0 ** draw(st.sampled_from([0, 0, -3, -2, 2, 3, -10, -7]))
    extra = draw(st.sampled_from([None, None, None, {"k": 600, "kind": "gauss"}]))
    spec = {"name": name}
    if name in ("ConFIG", "UPGrad") and draw(st.booleans()):
        spec["pref"] = (10.0 ** rng.uniform(-1, 1, size=m)).tolist()
    if name == "Constant":
        spec["weights"] = rng.standard_normal(m).tolist()
    decades = draw(st.sampled_from([0.5, 1.0, 3.0]))
    c1 = (10.0 ** rng.uniform(-decades, decades, size=m)).tolist()
    c2 = (10.0 ** rng.uniform(-decades, decades, size=m)).tolist()
    if draw(st.sampled_from([True] + [False] * 9)):
        c2 = [2.5 * v for v in c1]
    a = 10.0 ** draw(st.floats(-1, 1))
    b = 10.0 ** draw(st.floats(-1, 1))
    case = {"agg": spec, "dtype": dtype, "J": J.tolist(), "family": fam, "c1": c1, "c2": c2, "a": a, "b": b,
            "seed": draw(st.integers(0, 2**31 - 1)), "extra_cols": extra}
    if name == "PCGrad":
        case["schedule"] = [rng.permutation(m).tolist() for _ in range(m)]
        # half of the PCGrad cases use no scripted schedule at all: only torch.manual_seed(seed) before every related call
        # ("under a fixed random seed"), so where the permutations come from - and how many are drawn - is part of the check
        case["seeded"] = draw(st.booleans())
    return case


def parts(tier):
    n = 3_000 if tier == "quick" else 60_000
    return [Part("generated", "given", n=n, strategy=_case)]


def _run(spec, dtype, Jt, case, A=None):
    A = A if A is not None else aggs.make(spec, dtype)
    torch.manual_seed(case["seed"])
    if spec["name"] == "PCGrad" and not case.get("seeded"):
        with rel.ScriptedRandperm(case["schedule"]):
            return A(Jt), rel.weights_norm(A, Jt)
    x = A(Jt)
    wn = 1.0
    if spec["name"] in ("UPGrad", "Constant"):
        wn = rel.weights_norm(A, Jt)
    return x, wn


def run_case(case) -> Outcome:
    out = Outcome()
    spec, dtype = case["agg"], case["dtype"]
    name = spec["name"]
    eps = eps_of(dtype)
    tdt = getattr(torch, dtype)
    J = torch.tensor(widen(np.array(case["J"]), case.get("extra_cols"), case["seed"]), dtype=tdt).double().numpy()
    m, n = J.shape
    if case.get("extra_cols"):
        out.cls("wide")
    a, b = case["a"], case["b"]
    c1, c2 = np.array(case["c1"]), np.array(case["c2"])
    c3 = a * c1 + b * c2
    out.cls(name, dtype, "family:" + case["family"])
    Js = [torch.tensor(c[:, None] * J, dtype=tdt) for c in (c1, c2, c3)]
    J64 = [j.double().numpy() for j in Js]
    ss = [smax(j) for j in J64]
    if min(ss) == 0:
        out.excluded = "zero-matrix"
        return out
    coefs = [a, b, 1.0]
    parallel = np.linalg.matrix_rank(np.stack([c1, c2])) < 2
    if name == "ConFIG":
        units = J / np.linalg.norm(J, axis=1, keepdims=True)
        c = rel.cond_full_row_rank(units)
        if c is None or c > (30 if dtype == "float32" else 1e3):
            out.excluded = "rank-numerically-ambiguous"
            return out
        amp = c**2
    else:
        amp = 1.0
    if name == "PCGrad" and refs.pcgrad_margin(J, case["schedule"]) < rel.MARGIN[dtype] * 10:
        # a branch test g.g_j < 0 at (numerical) zero: PCGrad is continuous there (the correction vanishes with the
        # inner product), so the relation is still checked - only recorded as a class
        out.cls("pcgrad-branch-tie")

    rungs = [None]
    if name == "UPGrad":
        rungs = [r for r in LADDER if dtype == "float64" or r >= 1e-4]
        if min(ss) < 2e-4:
            out.excluded = "below-2-norm_eps"
            return out
    active = False
    n_eval = 0
    for reg in rungs:
        sp = dict(spec)
        if reg is not None:
            sp["reg_eps"] = reg
            out.cls(f"reg={reg:g}")
            # documented domain of reg_eps (see C03)
            ok_dom = True
            for j64, s in zip(J64, ss):
                lam = max(0.0, float(np.linalg.eigvalsh(j64 @ j64.T)[0]) / s**2)
                if reg + lam < 50 * m * eps:
                    ok_dom = False
            if not ok_dom:
                out.cls("rung-out-of-domain")
                continue
        xs, wns = [], []
        A_same = aggs.make(sp, dtype)  # ONE instance for the three related calls, as a user would do
        for Jt in Js:
            r = out.call(f"raises:{name}", _run, sp, dtype, Jt, case, A_same)
            if r is RAISED:
                return out
            xs.append(r[0].double().numpy())
            wns.append(max(1.0, r[1]))
        n_eval += 1
        defect = float(np.linalg.norm(xs[2] - a * xs[0] - b * xs[1]))
        fp = rel.K * (m + n) * eps * amp * sum(co * s * w for co, s, w in zip(coefs, ss, wns)) + 1e-300
        if name == "UPGrad":
            kappas = [s / max(float(np.linalg.norm(j64, axis=1).min()), 1e-300) for j64, s in zip(J64, ss)]
            fp = fp / np.sqrt(reg)
            bound = C_REG * np.sqrt(reg) * sum(co * k * s * w for co, k, s, w in zip(coefs, kappas, ss, wns)) + fp
            u = np.full(m, 1.0 / m) if spec.get("pref") is None else np.array(spec["pref"])
            if np.linalg.norm(xs[2] - J64[2].T @ u) > 1e-6 * ss[2]:
                active = True
            if not out.within(defect, bound, "upgrad-linearity-defect",
                              f"reg_eps={reg:g}: defect {defect:.3e} > C sqrt(reg) sum coef kappa s |w| + fp = {bound:.3e}"):
                break
        else:
            if not out.within(defect, fp, f"linear-under-scaling:{name}",
                              f"|A(diag(a c1+b c2)J) - aA(diag(c1)J) - bA(diag(c2)J)| = {defect:.3e} > {fp:.3e}; "
                              f"a={a!r}, b={b!r}, c1={c1.tolist()}, c2={c2.tolist()}"):
                break
    if n_eval == 0:
        out.excluded = "all-rungs-out-of-domain"
        return out
    out.evals = n_eval
    if active:
        out.cls("UPGrad:active")
    out.nontrivial = (not parallel) and m >= 2 and (name != "UPGrad" or active)
    return out
