"""C11 - Aggregators are total, pure, stateless and positively homogeneous."""

import numpy as np
import torch
from hypothesis import strategies as st

from vlib import aggs, refs
from vlib.matrices import SEEDS, build, eps_of, extra_cols_strategy, smax, widen
from vlib.runner import RAISED, Outcome, Part

ID = "C11"
RULE = (
    "Hypothesis-generated (aggregator configuration, matrix, scenario) for the 15 aggregators other than NashMTL, each "
    "with a drawn admissible configuration (pref/weights/leak in the matrix dtype, Krum (f,k) with m>=f+3, m>=k, "
    "TrimmedMean b with m>=2b+1, CAGrad c in [0,3], MGDA budgets). Matrices: 1<=m<=8, 1<=n<=10 (incl. m=1, n=1, "
    "m>n; a quarter of the `total` cases widened by 90 / 1500 Gaussian or 3000 zero columns), families grid/Gaussian/prescribed-SVD/low-rank (rank 0..min)/duplicate rows/zero rows/conflicting/"
    "stationary with O(1) entries times 10^e, e in [-12,15] (float32) / [-100,100] (float64). Scenarios: total "
    "(finite (n,) vector of the input dtype, input bitwise unchanged, also when the matrix is a transposed / row-strided / "
    "column-strided view of a bigger buffer, is passed under no_grad / inference_mode, requires grad itself, or has its "
    "zeros written as -0.0 - with the same result as for a contiguous copy; a few cases with 32 or 100 rows); reject (0-d/1-d/3-d tensors, NaN/+-inf at a "
    "drawn position, row count contradicting weights/pref/leak/minimum must raise ValueError; ConFIG exempt); "
    "history (an instance that processed 1-3 other matrices - other shapes, and other dtypes where no configured vector "
    "pins the dtype, optionally all written in place into ONE reused tensor object - returns bitwise what a fresh instance "
    "returns on a fresh tensor; "
    "randomised ones under equal torch.manual_seed); homogeneity A(tJ) ~ t A(J) for t = 2^k (all aggregators; exact "
    "scaling, so ties and rank decisions replicate) and t = 2^k mu (continuous aggregators; pinv/eigh based ones on "
    "full-row-rank matrices only), UPGrad/DualProj/CAGrad only while s and t s >= 2 norm_eps. Non-trivial = scale "
    "outside [1e-3,1e3], or rank-deficient, or m=1, or n=1, or a rejection case. Distinct = distinct case."
)
ASSUMPTIONS = [
    "homogeneity tolerance K eps t s amplification with amplification m/sqrt(reg_eps) (UPGrad/DualProj), cond^2 "
    "(IMTL-G, ConFIG, Aligned-MTL with generic t), solver tolerance 3e-3 (float32) / 2e-4 (float64) for CAGrad",
    "UPGrad/DualProj run with reg_eps >= 1e-4 in float32 and >= 1e-10 in float64 (documented domain, see C03)",
]
LEVEL_TEXT = (
    "Generated-input search over configurations x shapes x ranks x 27 (float32) / 200 (float64) decades of scale, with "
    "validity, fault-injection (rejection), history and metamorphic (homogeneity) oracles. No proof."
)
LEVEL_NOTE = "Trusted: torch CPU kernels, the float64 margin/rank computations used to decide which relation applies."
TECHNIQUE = "property-based testing (Hypothesis): validity + fault injection + history independence + metamorphic scaling"
REQUIRED_CLASSES = {"history:same-tensor-object": 1, "history:other-dtype": 1, "total": 1, "reject": 1, "history": 1, "homog:pow2": 1, "homog:generic": 1, "scale:extreme": 1}

K = 50.0
NAMES = list(aggs.ALL)
FAMS = ["grid", "gauss", "svd", "lowrank", "dup", "zero_rows", "conflict", "stationary"]
DISCONTINUOUS = ("Krum", "PCGrad", "MGDA", "GradDrop", "TrimmedMean")
RANK_BASED = ("IMTLG", "AlignedMTL", "ConFIG")


def _draw_spec(draw, name, m, rng):
    spec = {"name": name}
    if name in ("UPGrad", "DualProj", "AlignedMTL", "ConFIG"):
        if draw(st.booleans()):
            spec["pref"] = (10.0 ** rng.uniform(-1, 1, size=m)).tolist()
    if name in ("UPGrad", "DualProj"):
        spec["reg_eps"] = draw(st.sampled_from([1e-4, 1e-4, 1e-2, 1e-3]))
        spec["norm_eps"] = draw(st.sampled_from([1e-4, 1e-4, 1e-6, 1e-2]))
    if name == "MGDA" and draw(st.booleans()):
        spec["epsilon"] = draw(st.sampled_from([0.0, 1e-3, 1e-2]))
        spec["max_iters"] = draw(st.sampled_from([1, 3, 20, 100]))
    if name == "CAGrad":
        spec["c"] = draw(st.sampled_from([0.0, 0.5, 1.0, 3.0]))
    if name == "Constant":
        spec["weights"] = (rng.standard_normal(m) * 10.0 ** rng.uniform(-1, 1)).tolist()
    if name == "GradDrop" and draw(st.booleans()):
        spec["leak"] = rng.uniform(0, 1, size=m).tolist()
        if draw(st.booleans()):
            for i in rng.choice(m, size=int(rng.integers(1, m + 1)), replace=False):
                spec["leak"][int(i)] = float(rng.integers(0, 2))
    if (name in ("UPGrad", "DualProj") and "pref" in spec) or (name == "GradDrop" and "leak" in spec):
        # these accept a configured vector of the other floating dtype; the result must still have the matrix dtype
        spec["vec_other_dtype"] = draw(st.sampled_from([True, False, False]))
    if name == "Krum":
        spec["f"] = draw(st.integers(0, max(0, m - 3)))
        spec["k"] = draw(st.integers(1, m))
    if name == "TrimmedMean":
        spec["b"] = draw(st.integers(0, (m - 1) // 2))
    return spec


def _matrix(draw, m, n, dtype, rng, full_rank=False):
    if full_rank:
        fam = "svd"
        extra = {"cond": 10.0 ** draw(st.floats(0.0, 2.0 if dtype == "float64" else 1.0))}
    else:
        fam = draw(st.sampled_from(FAMS))
        extra = {"cond": 10.0 ** draw(st.floats(0.0, 2.0)), "rank": draw(st.integers(0, min(m, n))),
                 "eps": 1e-2, "delta": 1e-2}
    if fam == "grid":
        J = rng.integers(-4, 5, size=(m, n)) / 2.0
    else:
        J = build(fam, m, n, rng, extra)
    return J, fam


@st.composite
def _case(draw):
    name = draw(st.sampled_from(NAMES))
    scenario = draw(st.sampled_from(["total", "total", "reject", "history", "homog", "homog"]))
    dtype = draw(st.sampled_from(["float64", "float32"]))
    rng = np.random.default_rng(draw(SEEDS))
    m_min = 3 if name == "Krum" else 1
    m = draw(st.integers(m_min, 8))
    many_rows = scenario == "total" and draw(st.sampled_from([True] + [False] * 30))
    if many_rows:
        m = draw(st.sampled_from([32, 100]))  # many objectives
    n = draw(st.integers(1, 10))
    spec = _draw_spec(draw, name, m, rng)
    emax_lo, emax_hi = (-12, 15) if dtype == "float32" else (-100, 100)
    e = draw(st.sampled_from([0, 0, draw(st.integers(-3, 3)), draw(st.integers(emax_lo, emax_hi)), emax_lo, emax_hi]))
    case = {"scenario": scenario, "agg": spec, "dtype": dtype, "seed": draw(st.integers(0, 2**31 - 1)), "scale_exp": e,
            "layout": draw(st.sampled_from(["contiguous", "contiguous", "transposed", "row-strided", "col-strided", "no_grad",
                                            "inference_mode", "requires_grad", "negative-zeros"])),
            "extra_cols": draw(extra_cols_strategy()) if scenario == "total" else None}
    if scenario == "reject":
        if name == "ConFIG":
            scenario = case["scenario"] = "total"
        else:
            faults = ["dim0", "dim1", "dim3", "nan", "inf", "-inf"]
            if name in ("Constant", "Krum", "TrimmedMean") or "pref" in spec or "leak" in spec:
                faults += ["rows", "rows"]
            fault = draw(st.sampled_from(faults))
            case["fault"] = fault
            J, fam = _matrix(draw, m, n, dtype, rng)
            if fault == "rows":
                if name == "Krum":
                    mm = draw(st.integers(1, max(spec["f"] + 2, 1)))
                    if draw(st.booleans()) and spec["k"] > 1:
                        mm = spec["k"] - 1 if spec["k"] - 1 >= 1 else mm
                        case["agg"]["f"] = 0 if mm >= 3 else spec["f"]
                    if mm >= aggs.min_rows(case["agg"]):
                        mm = max(1, aggs.min_rows(case["agg"]) - 1)
                elif name == "TrimmedMean":
                    spec["b"] = max(1, spec["b"])
                    mm = draw(st.integers(1, 2 * spec["b"]))
                else:
                    mm = draw(st.sampled_from([k for k in range(1, 10) if k != m]))
                J, fam = _matrix(draw, mm, n, dtype, rng)
            case["J"] = (J * 10.0**e).tolist()
            case["pos"] = [draw(st.integers(0, 10**6)), draw(st.integers(0, 10**6))]
            return case
    full_rank = scenario == "homog" and name in RANK_BASED and draw(st.booleans())
    if full_rank:
        n = max(n, m)
    J, fam = _matrix(draw, m, n, dtype, rng, full_rank=full_rank)
    if name == "Krum" and scenario == "homog" and draw(st.sampled_from([True, False])):
        # many rows sharing a large common component: distances are small differences of large numbers
        m = draw(st.integers(26, 40))
        n = draw(st.sampled_from([8, 16, 40]))
        spec["f"] = draw(st.integers(0, 5))
        spec["k"] = draw(st.integers(1, 3))
        J = rng.standard_normal((m, n)) * rng.uniform(0.3, 3.0, size=(m, 1)) + 10.0 ** draw(st.sampled_from([3, 4])) * np.sign(rng.standard_normal(n))
        fam = "common-offset"
    case["family"] = fam + (":full" if full_rank else "")
    case["J"] = (J * 10.0**e).tolist()
    if scenario == "history":
        hist = []
        # half of the histories reuse ONE tensor object, overwritten in place between the calls (a gradient buffer)
        case["same_object"] = draw(st.sampled_from([True, False]))
        for _ in range(draw(st.integers(1, 3))):
            needs_same_m = name in ("Constant",) or "pref" in spec or "leak" in spec
            hm = m if (needs_same_m or case["same_object"]) else draw(st.integers(aggs.min_rows(spec), 8))
            hn = n if case["same_object"] else draw(st.integers(1, 10))
            H, _ = _matrix(draw, hm, hn, dtype, rng)
            # earlier calls may have used another dtype (allowed whenever no configured vector pins the dtype; UPGrad and
            # DualProj accept it even with a preference vector because the projection weights are cast to the Gramian's dtype)
            configured = any(k in spec for k in ("pref", "weights", "leak"))
            hd = dtype
            if (not configured or name in ("UPGrad", "DualProj")) and not case["same_object"] and draw(st.sampled_from([True, False])):
                hd = "float32" if dtype == "float64" else "float64"
            hist.append({"J": (H * 10.0 ** draw(st.integers(-3, 3))).tolist(), "dtype": hd})
        case["history"] = hist
    if scenario == "homog":
        k = draw(st.integers(-20, 20)) if dtype == "float32" else draw(st.integers(-60, 60))
        generic = draw(st.booleans()) and (name not in DISCONTINUOUS or name == "Krum") and (name not in RANK_BASED or full_rank)
        mu = draw(st.floats(1.0, 2.0)) if generic else 1.0
        case["t"] = float(2.0**k * mu)
        case["generic_t"] = bool(generic)
    return case


def parts(tier):
    n = 24_000 if tier == "quick" else 600_000
    return [Part("generated", "given", n=n, strategy=_case)]


def _in_range(J64, dtype):
    a = float(np.abs(J64).max(initial=0.0))
    lo, hi = (1e-13, 4e15) if dtype == "float32" else (1e-101, 4e100)
    return a == 0.0 or (a <= hi and a >= lo * 1e-3)


def _call(A, Jt, seed):
    torch.manual_seed(seed)
    return A(Jt)


def _with_layout(Jt, layout):
    """Same values, another memory layout (a user may pass any strided view of a bigger buffer), another autograd
    context, or zeros written as -0.0."""
    m, n = Jt.shape
    if layout == "requires_grad":
        return Jt.clone().requires_grad_(True)
    if layout == "negative-zeros":
        return torch.where(Jt == 0, torch.full_like(Jt, -0.0), Jt)
    if layout == "transposed":
        return Jt.t().contiguous().t()
    if layout == "row-strided":
        big = torch.zeros(2 * m, n, dtype=Jt.dtype)
        big[::2] = Jt
        return big[::2]
    if layout == "col-strided":
        big = torch.zeros(m, 2 * n, dtype=Jt.dtype)
        big[:, ::2] = Jt
        return big[:, ::2]
    return Jt


def run_case(case) -> Outcome:
    out = Outcome()
    spec, dtype, sc = case["agg"], case["dtype"], case["scenario"]
    name = spec["name"]
    eps = eps_of(dtype)
    tdt = getattr(torch, dtype)
    out.cls(sc, name, dtype)

    if sc == "reject":
        fault = case["fault"]
        Jt = torch.tensor(case["J"], dtype=tdt)
        m, n = Jt.shape
        if fault == "dim0":
            X = Jt[0, 0].clone()
        elif fault == "dim1":
            X = Jt[0].clone()
        elif fault == "dim3":
            X = Jt.unsqueeze(case["pos"][0] % 3).clone()
        elif fault in ("nan", "inf", "-inf"):
            X = Jt.clone()
            X[case["pos"][0] % m, case["pos"][1] % n] = float(fault)
        else:
            X = Jt
            if m >= aggs.min_rows(spec) and name in ("Krum", "TrimmedMean"):
                out.excluded = "row-fault-not-a-fault"
                return out
        out.cls("reject:" + fault)
        out.nontrivial = True
        A = aggs.make(spec, dtype)
        try:
            r = _call(A, X, case["seed"])
            out.check(False, f"no-rejection:{fault}:{name}", f"input of shape {tuple(X.shape)} returned {r}")
        except ValueError:
            pass
        except Exception as e:  # noqa: BLE001
            out.check(False, f"wrong-exception:{fault}:{name}", f"{type(e).__name__}: {e}")
        return out

    Jt = torch.tensor(widen(np.array(case["J"]), case.get("extra_cols") if sc == "total" else None, case["seed"]), dtype=tdt)
    if case.get("extra_cols") and sc == "total":
        out.cls("wide")
    J = Jt.double().numpy()
    m, n = J.shape
    if not torch.isfinite(Jt).all() or not _in_range(J, dtype):
        out.excluded = "scale-out-of-dtype-range"
        return out
    s = smax(J)
    e = case["scale_exp"]
    rank = int(np.linalg.matrix_rank(J)) if s > 0 else 0
    extreme = abs(e) > 3
    if extreme:
        out.cls("scale:extreme")
    out.nontrivial = extreme or rank < min(m, n) or m == 1 or n == 1
    norm_eps = spec.get("norm_eps", 1e-4)

    before = Jt.clone()
    A = aggs.make(spec, dtype)
    r = out.call(f"raises:{name}", _call, A, Jt, case["seed"])
    if r is RAISED:
        return out
    out.check(torch.equal(before, Jt), f"mutates-input:{name}")
    layout = case.get("layout", "contiguous")
    if layout != "contiguous" and sc == "total":
        # the matrix is a value: a non-contiguous view holding the same numbers must be handled (and left untouched)
        Jl = _with_layout(Jt, layout)
        out.cls("layout:" + layout)
        import contextlib

        ctx = torch.no_grad() if layout == "no_grad" else torch.inference_mode() if layout == "inference_mode" else contextlib.nullcontext()
        with ctx:
            rl = out.call(f"raises-on-{layout}-view:{name}", _call, aggs.make(spec, dtype), Jl, case["seed"])
        if rl is not RAISED:
            rl = rl.detach()
            out.check(torch.equal(Jl.detach(), before), f"mutates-input:{name}", f"{layout} view modified")
            okl = tuple(rl.shape) == (n,) and rl.dtype == Jt.dtype and bool(torch.isfinite(rl).all())
            out.check(okl, f"layout-view-bad-output:{name}", f"{layout}: {rl}")
            if okl and name not in DISCONTINUOUS and bool(torch.isfinite(r).all()):
                from vlib import relations as rel

                if rel.domain_exclusion(spec, dtype, J) is None and s > 0:
                    wn = rel.weights_norm(A, Jt) if name not in ("ConFIG", "Random") else 1.0
                    tol_l = rel.base_tolerance(spec, dtype, J, wn, float(r.double().norm()))
                    out.within(float((rl.double() - r.double()).norm()), tol_l, f"layout-dependence:{name}",
                               f"{layout} view gives {rl.tolist()}, contiguous copy gives {r.tolist()}")
    ok = tuple(r.shape) == (n,) and r.dtype == Jt.dtype
    out.check(ok, f"shape-dtype:{name}", f"shape {tuple(r.shape)} dtype {r.dtype} for input {tuple(Jt.shape)} {Jt.dtype}")
    fin = bool(torch.isfinite(r).all())
    out.check(fin, f"non-finite:{name}", f"output {r.tolist()} (scale 1e{e}, family {case.get('family')})")
    if not (ok and fin):
        return out

    if sc == "history":
        B = aggs.make(spec, dtype)
        same = bool(case.get("same_object"))
        buf = torch.empty_like(Jt) if same else None
        for H in case["history"]:
            if H["dtype"] != dtype:
                out.cls("history:other-dtype")
            Ht = torch.tensor(H["J"], dtype=getattr(torch, H["dtype"]))
            if same:
                buf.copy_(Ht)  # the SAME tensor object is overwritten in place and passed again
                Ht = buf
                out.cls("history:same-tensor-object")
            h = out.call(f"raises-in-history:{name}", _call, B, Ht, case["seed"] + 1)
            if h is RAISED:
                return out
        if same:
            buf.copy_(Jt)
        r2 = out.call(f"raises:{name}", _call, B, buf if same else Jt, case["seed"])
        if r2 is not RAISED:
            out.check(torch.equal(r, r2), f"history-dependent:{name}",
                      f"fresh {r.tolist()} vs after {len(case['history'])} other calls {r2.tolist()}")
        r3 = out.call(f"raises:{name}", _call, A, Jt, case["seed"])
        if r3 is not RAISED:
            out.check(torch.equal(r, r3), f"not-reproducible:{name}", "same instance, same seed, same input")
        return out

    if sc == "homog":
        t = case["t"]
        Jt2 = Jt * t
        J2 = Jt2.double().numpy()
        if not torch.isfinite(Jt2).all() or not _in_range(J2, dtype) or not _in_range(J, dtype):
            out.excluded = "scaled-matrix-out-of-dtype-range"
            return out
        if s == 0:
            out.excluded = "zero-matrix"
            return out
        if name in ("UPGrad", "DualProj", "CAGrad") and min(s, t * s) < 2 * norm_eps:
            out.excluded = "below-norm_eps(averaging-by-design)"
            return out
        # exact scaling requires no underflow of the scaled entries
        if not np.array_equal(J2, J * t) and not case["generic_t"]:
            out.excluded = "pow2-scaling-inexact(denormal)"
            return out
        r2 = out.call(f"raises:{name}", _call, aggs.make(spec, dtype), Jt2, case["seed"])
        if r2 is RAISED:
            return out
        if not out.check(bool(torch.isfinite(r2).all()) and tuple(r2.shape) == (n,), f"non-finite:{name}", f"{r2.tolist()} at t={t}"):
            return out
        x1, x2 = r.double().numpy() * t, r2.double().numpy()
        amp = float(m)
        if name == "Constant":
            amp *= max(1.0, float(np.abs(np.array(spec["weights"])).max()))
        if name == "Krum" and case["generic_t"]:
            from vlib import relations as rel

            if rel.domain_exclusion(spec, dtype, J) is not None:
                out.excluded = "krum-score-tie"
                return out
        if name == "CAGrad":
            from vlib import relations as rel

            if rel.domain_exclusion(spec, dtype, J) == "cagrad-stationarity-decision-ambiguous":
                out.excluded = "cagrad-stationarity-decision-ambiguous"
                return out
        if name in ("UPGrad", "DualProj"):
            amp = m / np.sqrt(spec["reg_eps"])
            w = A.weighting(Jt).double().numpy()
            amp *= max(1.0, float(np.linalg.norm(w)))
        elif name in RANK_BASED:
            sv = np.linalg.svd(J, compute_uv=False)
            full = rank == m and sv[m - 1] > 0
            if full:
                cond = sv[0] / sv[m - 1]
                if cond > (30 if dtype == "float32" else 1e3):
                    out.excluded = "rank-numerically-ambiguous(cond)"
                    return out
                amp = m * cond**2 * max(1.0, float(np.abs(x1).max() / (t * s)))
            else:
                # rank-deficient: only exact (power-of-two) scaling inside the range where LAPACK does not
                # rescale internally, so that every rank decision replicates exactly on both sides
                lo, hi = (1e-5, 1e5) if dtype == "float32" else (1e-60, 1e60)
                if case["generic_t"] or not (lo <= s <= hi and lo <= t * s <= hi):
                    out.excluded = "rank-deficient-outside-exact-scaling-range"
                    return out
                amp = m * max(1.0, float(np.abs(x1).max() / (t * s)))
        tol = K * eps * amp * t * s
        if name == "Krum":
            # Krum returns the plain average of k rows: its rounding error is relative to the largest ROW norm, not to
            # m times the largest singular value (which a common component shared by many rows inflates by m^1.5)
            tol = K * eps * t * float(np.linalg.norm(J, axis=1).max()) * 4
        if name == "CAGrad":
            w = A.weighting(Jt).double().numpy()
            tol += (3e-3 if dtype == "float32" else 2e-4) * t * s * max(1.0, float(np.linalg.norm(w)))
        out.cls("homog:generic" if case["generic_t"] else "homog:pow2")
        err = float(np.linalg.norm(x1 - x2))
        out.within(err, tol + 1e-300, f"homogeneity:{name}",
                   f"|A(tJ) - tA(J)| = {err:.3e} > {tol:.3e}; t = {t!r}, s = {s:.3e}, A(J) = {r.tolist()}, A(tJ) = {r2.tolist()}")
    return out
