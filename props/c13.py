"""C13 - retain_graph means what it means in torch.autograd."""

import numpy as np
import torch
from hypothesis import strategies as st

from torchjd import backward, mtl_backward
from torchjd.aggregation import Sum
from vlib import jdcheck, large, programs as P
from vlib.probes import Recording
from vlib.matrices import eps_of
from vlib.runner import Outcome, Part

ID = "C13"
RULE = (
    "Hypothesis-generated histories of up to 3 operations on ONE graph (random program or trunk/heads program with "
    "heads sharing no node besides the features; ops with and without saved tensors): torchjd.backward(subset of "
    "outputs, Sum(), subset of inputs, retain_graph, chunk size), torchjd.mtl_backward(..., retain_graph, chunk "
    "size), torch.autograd.backward(...), torch.autograd.grad(...), `repeat the previous call`. Differential oracle "
    "on a twin graph that receives the same history with every torchjd call replaced by its textbook torch "
    "equivalent with the same inputs and flag (backward -> autograd.backward(tensors, ones, inputs); mtl_backward -> "
    "per task autograd.grad(loss_i, task_params_i + features, retain_graph=flag), then autograd.grad(features, "
    "shared, summed cotangents, retain_graph=flag)): at every step both sides succeed or both raise the 'backward "
    "through the graph a second time' RuntimeError; after a history without error a battery of probes "
    "autograd.grad(t, leaf, retain_graph=True) over all (output/feature/intermediate, leaf) pairs must succeed/fail "
    "identically on both graphs, and the accumulated .grad must agree; with retain_graph=True a repeated call adds a "
    "bitwise identical update. Non-trivial = a history containing a retain_graph=False torchjd call on a graph with "
    "saved tensors followed by another differentiation, or a chunked (k < m) retain_graph=False call. Distinct = "
    "distinct (program, history)."
    " Parts `many_rows` / `many_tasks`: 70..1030 rows (tasks) in one batched differentiation (chunk None, m, m-1, 256, 300), both "
    "flag values; the call must succeed and the graph must afterwards be usable exactly when retain_graph=True."
)
ASSUMPTIONS = [
    "torch.autograd's own freeing behaviour is the reference; both graphs are built by the same deterministic executor",
    "inputs of every call are drawn among the leaves its tensors depend on",
]
LEVEL_TEXT = "Generated call histories with a differential oracle against torch.autograd on a twin graph. No proof."
LEVEL_NOTE = "Trusted: torch.autograd as the reference for which saved tensors a call frees."
TECHNIQUE = "model-based / differential testing of generated call histories (Hypothesis) against torch.autograd on a twin graph"
REQUIRED_CLASSES = {"retain=False-then-more": 1, "chunked-no-retain": 1, "both-raise": 1, "jd_mtl": 1, "repeat": 1}

FREED = ("second time", "have already been freed")


@st.composite
def _case(draw):
    rng = np.random.default_rng(draw(st.integers(0, 2**32 - 1)))
    kind = draw(st.sampled_from(["plain", "plain", "mtl"]))
    if kind == "plain":
        prog = draw(P.programs(max_leaves=3, max_nodes=7, max_outputs=3))
    else:
        prog = draw(P.mtl_programs(allow_around=False, max_tasks=3))
    shapes = P.infer_shapes(prog)
    roots = [list(r) for r in prog["outputs"]] + ([list(f) for f in prog.get("features", [])])
    hist = []
    for step in range(int(rng.integers(1, 4))):
        types = ["jd_backward", "jd_backward", "t_backward", "t_grad"] + (["jd_mtl", "jd_mtl"] if kind == "mtl" else [])
        if hist and hist[-1]["type"].startswith("jd"):
            types += ["repeat"]
        typ = types[int(rng.integers(0, len(types)))]
        op = {"type": typ}
        if typ == "repeat":
            hist.append(op)
            continue
        retain = bool(rng.integers(0, 2))
        op["retain"] = retain
        if typ != "jd_mtl":
            k = int(rng.integers(1, len(roots) + 1))
            outs = [roots[i] for i in sorted(rng.permutation(len(roots))[:k].tolist())]
            deps = sorted(P.leaf_deps(prog, outs))
            if not deps:
                continue
            kk = int(rng.integers(1, len(deps) + 1))
            op["outs"] = outs
            op["inputs"] = [deps[i] for i in sorted(rng.permutation(len(deps))[:kk].tolist())]
            m = sum(P.numel(shapes[tuple(r)]) for r in outs)
        else:
            m = len(prog["losses"])
        if typ.startswith("jd"):
            ks = [None, 1] + list(range(1, m + 2))
            op["k"] = ks[int(rng.integers(0, len(ks)))]
            op["m"] = m
        hist.append(op)
    return {"prog": prog, "history": hist}


def parts(tier):
    n = 3_000 if tier == "quick" else 80_000
    return [Part("generated", "given", n=n, strategy=_case),
            # hundreds of rows in ONE batched differentiation (parallel_chunk_size None or >= 256): an implementation that
            # splits the batch internally must not free the graph before the last piece
            Part("many_rows", "given", n=32 if tier == "quick" else 480,
                 strategy=lambda: large.cases("backward", tall=True, retain_flag=True)),
            Part("many_tasks", "given", n=16 if tier == "quick" else 240,
                 strategy=lambda: large.cases("mtl", tall=True, retain_flag=True))]


def _is_freed_error(e):
    return isinstance(e, RuntimeError) and any(s in str(e) for s in FREED)


def _apply_jd(g, prog, op):
    rec = Recording(Sum())
    _apply_jd_with(g, prog, op, rec)
    return rec.calls[-1][1] if rec.calls else None


def _apply_jd_with(g, prog, op, agg):
    if op["type"] == "jd_backward":
        backward([g.get(r) for r in op["outs"]], agg, inputs=[g.leaves[i] for i in op["inputs"]],
                 retain_graph=op["retain"], parallel_chunk_size=op["k"])
    else:
        mtl_backward([g.get(l) for l in prog["losses"]], [g.get(f) for f in prog["features"]], agg,
                     tasks_params=[[g.leaves[p] for p in t] for t in prog["task_leaves"]],
                     shared_params=[g.leaves[p] for p in prog["shared_leaves"]],
                     retain_graph=op["retain"], parallel_chunk_size=op["k"])


def _acc_inplace(leaf, gr):
    if gr is None:
        gr = torch.zeros_like(leaf)
    if leaf.grad is None:
        leaf.grad = gr.clone()
    else:
        leaf.grad += gr


def _acc(leaf, gr):
    if gr is None:
        gr = torch.zeros_like(leaf)
    leaf.grad = gr.clone() if leaf.grad is None else leaf.grad + gr


def _apply_torch_equiv(g, prog, op):
    """Textbook torch.autograd equivalent of a torchjd call with the Sum aggregator."""
    if op["type"] == "jd_backward":
        # torch.autograd.backward accumulates IN PLACE into existing .grad fields, like torchjd does (this matters when
        # torch itself left two leaves with .grad views of one buffer); unreachable inputs are materialised as zeros
        tensors = [g.get(r) for r in op["outs"]]
        inputs = [g.leaves[i] for i in op["inputs"]]
        had = [leaf.grad is not None for leaf in inputs]
        torch.autograd.backward(tensors, [torch.ones_like(t) for t in tensors], inputs=inputs, retain_graph=op["retain"])
        for leaf, h in zip(inputs, had):
            if leaf.grad is None and not h:
                leaf.grad = torch.zeros_like(leaf)
            elif not h:
                # torch may hand the SAME buffer to two leaves it creates a .grad for (e.g. both operands of an add); a
                # .grad created by torchjd shares memory with nothing (C06), so the twin's new fields are un-aliased too
                leaf.grad = leaf.grad.clone()
        return
    feats = [g.get(f) for f in prog["features"]]
    cots = [torch.zeros_like(f) for f in feats]
    for loss_ref, plist in zip(prog["losses"], prog["task_leaves"]):
        params = [g.leaves[p] for p in plist]
        grads = torch.autograd.grad(g.get(loss_ref), params + feats, retain_graph=op["retain"], allow_unused=True)
        for leaf, gr in zip(params, grads[: len(params)]):
            _acc_inplace(leaf, gr)
        for j, gr in enumerate(grads[len(params) :]):
            if gr is not None:
                cots[j] = cots[j] + gr
    shared = [g.leaves[p] for p in prog["shared_leaves"]]
    grads = torch.autograd.grad(feats, shared, cots, retain_graph=op["retain"], allow_unused=True)
    for leaf, gr in zip(shared, grads):
        _acc_inplace(leaf, gr)


def _apply_torch(g, op):
    tensors = [g.get(r) for r in op["outs"]]
    inputs = [g.leaves[i] for i in op["inputs"]]
    gts = [torch.ones_like(t) for t in tensors]
    if op["type"] == "t_backward":
        torch.autograd.backward(tensors, gts, inputs=inputs, retain_graph=op["retain"])
    else:
        torch.autograd.grad(tensors, inputs, gts, retain_graph=op["retain"], allow_unused=True)


def _probe(g, prog):
    pat = []
    leaves = [i for i, lf in enumerate(prog["leaves"]) if lf["rg"]]
    for ref, t in g.values.items():
        if ref[0] != "n" or not t.requires_grad:
            continue
        for i in leaves:
            try:
                torch.autograd.grad(t, g.leaves[i], torch.ones_like(t), retain_graph=True, allow_unused=True)
                pat.append((str(ref), i, "ok"))
            except RuntimeError as e:
                pat.append((str(ref), i, "freed" if _is_freed_error(e) else "other:" + str(e)[:60]))
    return pat


def run_case(case) -> Outcome:
    out = Outcome()
    if case.get("kind") == "large":
        return large.run(case, out)
    prog, dtype = case["prog"], case["prog"]["dtype"]
    dual = P.run_dual(prog)
    if not jdcheck.scale_ok(dtype, dual.max_abs):
        out.excluded = "values-or-tangents-exceed-1e6"
        return out
    g1, g2 = P.TorchGraph(prog), P.TorchGraph(prog)
    saved_ops = {"sin", "tanh", "exp", "square", "mul", "novmap"}
    has_saved = any(n["op"] in saved_ops for n in prog["nodes"])
    prev = None
    raised = False
    seen_noretain_jd = False
    nt = False
    n_steps = 0
    for step, op in enumerate(case["history"]):
        if op["type"] == "repeat":
            op = prev
            if op is None:
                continue
            out.cls("repeat")
            is_repeat = True
        else:
            is_repeat = False
        out.cls(op["type"])
        if seen_noretain_jd and has_saved:
            out.cls("retain=False-then-more")
            nt = True
        before = [None if l.grad is None else l.grad.clone() for l in g1.leaves]
        e1 = e2 = None
        try:
            vec = None
            if op["type"].startswith("jd"):
                vec = _apply_jd(g1, prog, op)
            else:
                _apply_torch(g1, op)
        except Exception as e:  # noqa: BLE001
            e1 = e
        try:
            if op["type"].startswith("jd"):
                _apply_torch_equiv(g2, prog, op)
            else:
                _apply_torch(g2, op)
        except Exception as e:  # noqa: BLE001
            e2 = e
        n_steps += 1
        desc = f"step {step}: {({k: v for k, v in op.items() if k not in ('outs', '_vec')})} outs={op.get('outs')}"
        if e1 is not None and not _is_freed_error(e1):
            out.check(False, f"unexpected-exception:{type(e1).__name__}", f"{desc}: {str(e1)[:200]}")
            return out
        if e2 is not None and not _is_freed_error(e2):
            out.excluded = "torch-reference-raised-something-else"
            return out
        if (e1 is None) != (e2 is None):
            out.check(False, "freed-graph-mismatch:" + ("torchjd-raises" if e1 is not None else "torchjd-succeeds"),
                      f"{desc}: torchjd {'raised ' + str(e1)[:80] if e1 else 'succeeded'} while the torch.autograd equivalent "
                      f"{'raised' if e2 else 'succeeded'}")
            return out
        if e1 is not None:
            out.cls("both-raise")
            raised = True
            break
        if op["type"].startswith("jd"):
            if not op["retain"]:
                seen_noretain_jd = True
                if op.get("k") is not None and op["k"] < op.get("m", 0):
                    out.cls("chunked-no-retain")
                    nt = True
            if is_repeat and prev is not None and op["retain"] and prev.get("_vec") is not None and vec is not None:
                out.check(vec.shape == prev["_vec"].shape and torch.equal(vec, prev["_vec"]), "repeated-call-adds-different-update",
                          f"{desc}: aggregated update {vec.tolist()} vs {prev['_vec'].tolist()} at the previous identical call")
            op = dict(op)
            op["_vec"] = vec
        prev = op
    if not raised:
        p1, p2 = _probe(g1, prog), _probe(g2, prog)
        diff = [(a, b) for a, b in zip(p1, p2) if a != b]
        out.check(not diff, "graph-state-differs-from-autograd",
                  f"after the history {[{k: v for k, v in o.items() if k != '_vec'} for o in case['history']]}: "
                  f"(tensor, leaf, torchjd-graph, torch-graph) = {[(a[0], a[1], a[2], b[2]) for a, b in diff[:4]]}")
        tol = (1e-11 if dtype == "float64" else 1e-4) * max(1.0, dual.max_abs) * 8
        for i, (a, b) in enumerate(zip(g1.leaves, g2.leaves)):
            if not out.check((a.grad is None) == (b.grad is None), "grad-noneness-differs", f"leaf {i}"):
                continue
            if a.grad is not None and a.grad.numel() and out.check(tuple(a.grad.shape) == tuple(b.grad.shape), "grad-shape-differs", f"leaf {i}"):
                out.within(float((a.grad.double() - b.grad.double()).abs().max()), tol * max(1, n_steps), "accumulated-grad-differs",
                           f"leaf {i}: {a.grad.tolist()} vs {b.grad.tolist()}")
    out.evals = max(1, n_steps)
    out.nontrivial = nt
    return out
