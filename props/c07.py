"""C07 - parallel_chunk_size is a pure performance knob."""

import math
import os

import numpy as np
import torch
from hypothesis import strategies as st

from torchjd import backward, mtl_backward
from vlib import jdcheck, programs as P
from vlib.matrices import eps_of
from vlib.runner import Outcome, Part

ID = "C07"
RULE = (
    "Enumerated: ALL (m, k) with 1 <= m <= 12 and k in {None, 1..m+2} (114 pairs) x retain_graph in {False, True} x "
    "{backward, mtl_backward} x {plain, with a NoVmap op}, each on a program drawn from VERIF_SEED whose row count "
    "is forced to m (outputs of total size m / m tasks). Generated (Hypothesis): random programs and trunk/heads "
    "programs (as in C01/C02) with drawn k. Oracle: (i) the .grad increments equal those of k=1 on a twin graph "
    "(1e-12 relative in float64, 1e-5 in float32); (ii) a tensor hook on a node lying between the differentiated "
    "tensors (the features, for mtl_backward) and the parameters fires exactly ceil(m/k) times, with batch sizes "
    "(read from the functorch wrapper of the incoming gradient) each <= k and summing to m, and unbatched when k=1 "
    "or m=1; (iii) a program containing an autograd.Function whose backward cannot be vmapped succeeds and gives "
    "the k=1 result whenever k=1 or m=1. Non-trivial = 1 < k < m with m mod k != 0, or (k=1, m>=2, NoVmap present). "
    "Aggregators: Constant (distinct weights), Mean, Sum, UPGrad, DualProj, TrimmedMean (column-equivariant and "
    "continuous, so twin graphs are comparable). Distinct = distinct (program, m, k, retain_graph, entry point)."
)
ASSUMPTIONS = [
    "batch sizes are read through torch._C._functorch.{is_batchedtensor,get_unwrapped,maybe_get_bdim}; if that private "
    "API is unavailable the check degrades to counting sweeps and says so in the evidence",
]
LEVEL_TEXT = (
    "Exhaustive enumeration of all (rows, chunk size) pairs up to 12 rows for both entry points and both retain_graph "
    "values, observing sweeps with public tensor hooks, plus generated programs. No proof beyond m <= 12."
)
LEVEL_NOTE = "Trusted: tensor hooks fire once per backward sweep through the hooked tensor; functorch batch introspection."
TECHNIQUE = "exhaustive configuration enumeration + property-based testing with sweep-counting hooks and a vmap-hostile op"
REQUIRED_CLASSES = {"remainder-chunk": 1, "novmap:k=1": 1, "novmap:m=1": 1, "mtl": 1, "backward": 1, "k>m": 1}

try:
    from torch._C import _functorch as _ft

    _HAVE_FT = all(hasattr(_ft, n) for n in ("is_batchedtensor", "get_unwrapped", "maybe_get_bdim"))
except Exception:  # noqa: BLE001
    _ft, _HAVE_FT = None, False


def _batch_size(g):
    if not _HAVE_FT or not _ft.is_batchedtensor(g):
        return None
    return int(_ft.get_unwrapped(g).shape[_ft.maybe_get_bdim(g)])


def _forced_program(rng, m, entry, novmap, dtype):
    """A program with exactly m rows and a hookable node between the differentiated tensors and the leaves."""
    n1 = int(rng.integers(1, 4))
    leaves = [{"shape": [n1], "rg": True, "vals": (rng.integers(-8, 9, size=n1) / 4.0).tolist()}]
    nodes = [{"op": "sin", "args": [["l", 0]]}]  # n0: hooked node (between everything and leaf 0)
    if novmap:
        nodes.append({"op": "novmap", "args": [["n", 0]]})
    src = ["n", len(nodes) - 1]
    if entry == "backward" and m >= 2 and rng.integers(0, 2):
        # two differentiated tensors, each with a part of the graph of its own (hooked too): every sweep goes through
        # both parts, also when all the cotangents of one tensor are zero in that chunk
        a = int(rng.integers(1, m))
        outputs, hook2 = [], None
        for part in (a, m - a):
            leaves.append({"shape": [part], "rg": True, "vals": (rng.integers(-8, 9, size=part) / 4.0).tolist()})
            C = rng.integers(-2, 3, size=(part, n1)).astype(float)
            C[C == 0] = 1.0
            nodes.append({"op": "mul", "coerce": "dense", "C": C.tolist(), "args": [["l", len(leaves) - 1], src]})
            if hook2 is None:
                hook2 = ["n", len(nodes) - 1]
            nodes.append({"op": "tanh", "args": [["n", len(nodes) - 1]]})
            outputs.append(["n", len(nodes) - 1])
        return {"dtype": dtype, "leaves": leaves, "nodes": nodes, "outputs": outputs, "hook": ["n", 0], "hook2": hook2}
    if entry == "backward":
        leaves.append({"shape": [m], "rg": True, "vals": (rng.integers(-8, 9, size=m) / 4.0).tolist()})
        C = rng.integers(-2, 3, size=(m, n1)).astype(float)
        C[C == 0] = 1.0
        nodes.append({"op": "mul", "coerce": "dense", "C": C.tolist(), "args": [["l", 1], src]})
        nodes.append({"op": "tanh", "args": [["n", len(nodes) - 1]]})
        last = ["n", len(nodes) - 1]
        if m >= 2 and rng.integers(0, 2):
            a = int(rng.integers(1, m))
            nodes.append({"op": "split", "dim": 0, "sizes": [a, m - a], "args": [last]})
            outputs = [["n", len(nodes) - 1, 0], ["n", len(nodes) - 1, 1]]
        else:
            outputs = [last]
        return {"dtype": dtype, "leaves": leaves, "nodes": nodes, "outputs": outputs, "hook": ["n", 0]}
    nodes.append({"op": "tanh", "args": [src]})
    feat = ["n", len(nodes) - 1]
    losses, task_leaves = [], []
    for t in range(m):
        leaves.append({"shape": [n1], "rg": True, "vals": (rng.integers(-8, 9, size=n1) / 4.0).tolist()})
        nodes.append({"op": "mul", "coerce": "same", "args": [feat, ["l", len(leaves) - 1]]})
        nodes.append({"op": "sumall", "args": [["n", len(nodes) - 1]]})
        losses.append(["n", len(nodes) - 1])
        task_leaves.append([len(leaves) - 1])
    return {"dtype": dtype, "leaves": leaves, "nodes": nodes, "outputs": losses, "features": [feat], "losses": losses,
            "task_leaves": task_leaves, "shared_leaves": [0], "around": False, "hook": ["n", 0]}


def _enum_cases(tier):
    def build():
        seed = int(os.environ.get("VERIF_SEED", "1"))
        cases = []
        mmax = 12
        for m in range(1, mmax + 1):
            for k in [None] + list(range(1, m + 3)):
                for retain in (False, True):
                    for entry in ("backward", "mtl"):
                        for novmap in (False, True):
                            if novmap and not (k == 1 or m == 1):
                                continue
                            if tier == "quick" and m > 8 and retain and not novmap and k not in (None, 1, 2, m - 1):
                                continue
                            rng = np.random.default_rng([seed, m, 0 if k is None else k, int(retain), entry == "mtl", int(novmap)])
                            dtype = "float64" if rng.integers(0, 2) else "float32"
                            cases.append({"entry": entry, "m": m, "k": k, "retain": retain, "novmap": novmap,
                                          "prog": _forced_program(rng, m, entry, novmap, dtype),
                                          "agg": jdcheck.jd_aggregator(rng, m, 2, exclude=("poscode", "Krum")), "forced": True})
        return cases

    return build


@st.composite
def _case(draw):
    rng = np.random.default_rng(draw(st.integers(0, 2**32 - 1)))
    entry = draw(st.sampled_from(["backward", "mtl"]))
    if entry == "backward":
        prog = draw(P.programs(max_leaves=3, max_nodes=8, max_outputs=3))
        shapes = P.infer_shapes(prog)
        m = sum(P.numel(shapes[tuple(r)]) for r in prog["outputs"])
    else:
        prog = draw(P.mtl_programs(allow_around=False))
        m = len(prog["losses"])
    ks = [None] + list(range(1, m + 3))
    return {"entry": entry, "m": m, "k": ks[int(rng.integers(0, len(ks)))], "retain": bool(rng.integers(0, 2)),
            "novmap": False, "prog": prog, "agg": jdcheck.jd_aggregator(rng, m, 2, exclude=("poscode", "Krum")), "forced": False}


def parts(tier):
    n = 3_000 if tier == "quick" else 80_000
    note = "all (m, k): 1 <= m <= 12, k in {None, 1..m+2} x retain_graph x {backward, mtl_backward} (+ NoVmap for k=1 or m=1)"
    if tier == "quick":
        note += "; for m > 8 with retain_graph=True only k in {None, 1, 2, m-1}"
    return [Part("all_m_k", "enum", cases=_enum_cases(tier), exhaustive_note=note),
            Part("generated", "given", n=n, strategy=_case)]


def _run(case, k, hook_ref=None):
    prog, dtype = case["prog"], case["prog"]["dtype"]
    g = P.TorchGraph(prog)
    sweeps = []
    sweeps2 = []
    if hook_ref is not None:
        g.get(hook_ref).register_hook(lambda gr: sweeps.append(_batch_size(gr)) or None)
        if prog.get("hook2") is not None:
            g.get(prog["hook2"]).register_hook(lambda gr: sweeps2.append(_batch_size(gr)) or None)
    g.sweeps2 = sweeps2
    agg = jdcheck.make_recording(case["agg"], dtype)
    if case["entry"] == "backward":
        backward([g.get(r) for r in prog["outputs"]], agg, retain_graph=case["retain"], parallel_chunk_size=k)
    else:
        mtl_backward([g.get(l) for l in prog["losses"]], [g.get(f) for f in prog["features"]], agg,
                     tasks_params=[[g.leaves[p] for p in t] for t in prog["task_leaves"]],
                     shared_params=[g.leaves[p] for p in prog["shared_leaves"]],
                     retain_graph=case["retain"], parallel_chunk_size=k)
    return g, sweeps


def run_case(case) -> Outcome:
    out = Outcome()
    prog, dtype, m, k = case["prog"], case["prog"]["dtype"], case["m"], case["k"]
    eps = eps_of(dtype)
    out.cls(case["entry"], dtype, "retain" if case["retain"] else "no-retain")
    if not case["forced"]:
        dual = P.run_dual(prog)
        if not jdcheck.scale_ok(dtype, dual.max_abs):
            out.excluded = "values-or-tangents-exceed-1e6"
            return out
    keff = m if k is None else min(k, m)
    if k is not None and k > m:
        out.cls("k>m")
    remainder = k is not None and 1 < k < m and m % k != 0
    if remainder:
        out.cls("remainder-chunk")
    if case["novmap"]:
        out.cls("novmap:k=1" if k == 1 and m >= 2 else "novmap:m=1")
    hook = prog.get("hook")
    try:
        g, sweeps = _run(case, k, hook)
    except Exception as e:  # noqa: BLE001
        out.check(False, f"raises:{case['entry']}:{type(e).__name__}",
                  f"m={m}, k={k}, retain_graph={case['retain']}, novmap={case['novmap']}: {str(e)[:250]}")
        return out
    try:
        g1, _ = _run(case, 1)
    except Exception as e:  # noqa: BLE001
        out.check(False, f"raises-k1:{case['entry']}:{type(e).__name__}", str(e)[:250])
        return out
    rel = 1e-12 if dtype == "float64" else 1e-5
    if case["agg"]["name"] in ("UPGrad", "DualProj"):
        rel *= 100.0  # 1/sqrt(reg_eps): sensitivity of the regularised projection to rounding differences in J
    for i, (a, b) in enumerate(zip(g.leaves, g1.leaves)):
        if not out.check((a.grad is None) == (b.grad is None), "grad-noneness-depends-on-chunk-size", f"leaf {i}"):
            continue
        if a.grad is not None:
            if not out.check(tuple(a.grad.shape) == tuple(b.grad.shape), "grad-shape-depends-on-chunk-size", f"leaf {i}"):
                continue
            scale = max(1.0, float(b.grad.abs().max())) if b.grad.numel() else 1.0
            err = float((a.grad.double() - b.grad.double()).abs().max()) if a.grad.numel() else 0.0
            out.within(err, rel * scale * 10, "update-depends-on-chunk-size",
                       f"leaf {i}: k={k} gives {a.grad.tolist()}, k=1 gives {b.grad.tolist()} (m={m})")
    if hook is not None:
        want = math.ceil(m / keff)
        if prog.get("hook2") is not None:
            out.cls("two-tensor-specific-hook")
            s2 = g.sweeps2
            out.check(len(s2) == want, "sweep-count-on-tensor-specific-part",
                      f"m={m}, k={k}: the part of the graph below the first differentiated tensor was traversed {len(s2)} times, "
                      f"expected ceil(m/k) = {want}")
        out.check(len(sweeps) == want, "sweep-count",
                  f"m={m}, k={k}: {len(sweeps)} sweeps through the graph, expected ceil(m/k) = {want} (batch sizes {sweeps})")
        if _HAVE_FT and len(sweeps) == want:
            sizes = [1 if s is None else s for s in sweeps]
            out.check(all(s <= keff for s in sizes) and sum(sizes) == m, "sweep-batch-sizes",
                      f"m={m}, k={k}: batch sizes {sweeps}")
            if k == 1 or m == 1:
                out.check(all(s is None for s in sweeps), "batched-differentiation-for-single-row",
                          f"m={m}, k={k}: a sweep received a batched (vmap) gradient: {sweeps}")
        elif not _HAVE_FT:
            out.cls("degraded:no-functorch-introspection")
    out.nontrivial = remainder or (case["novmap"] and k == 1 and m >= 2)
    return out
