"""C16 - Byzantine-robust aggregators ignore a bounded number of arbitrary rows (TrimmedMean, Krum)."""

import numpy as np
import torch
from hypothesis import strategies as st

from torchjd.aggregation import Krum, TrimmedMean
from vlib import refs
from vlib.matrices import case_tensor, widened, SEEDS, eps_of
from vlib.runner import RAISED, Outcome, Part

ID = "C16"
RULE = (
    "Hypothesis-generated matrices = honest rows (Gaussian or half-integer grid, scale 10^[-3,3], optionally sharing a common offset of 1e2 / 1e4 x scale) with q <= b "
    "(resp. f) rows replaced at drawn positions by corrupted values (random/constant/copies/equal, magnitude up to "
    "1e12 x honest scale), all admissible b with m >= 2b+1 and (f,k) with m >= f+3, m >= k, m <= 9 (a quarter of the cases: 20-40 more rows and n in {16, 64}), n <= 6, float32 "
    "and float64; plus too-small matrices that must be rejected. Oracles: NumPy transcription of the definitions "
    "(TrimmedMean value + [min,max]-of-untouched-rows bound; Krum: weights are 1/k on exactly k rows validated "
    "against float64 reference scores with a tie-tolerant predicate, output = plain average of the selected rows). "
    "Non-trivial = at least one corrupted row of magnitude >= 1e3 x honest scale (Krum: additionally k >= 2 or "
    "f >= 1). Distinct = distinct (matrix, parameters)."
    " A quarter of the cases add 20-40 rows (one in ten of those 130 / 300 / 600); one case in 14 is widened by 5000 / 70 000 columns."
)
ASSUMPTIONS = [
    "CPU, torch as installed; float32 reference runs in float64 on the float32-rounded inputs",
    "Krum tie-break among scores closer than 50(n+m)eps relative is not constrained",
]
LEVEL_TEXT = (
    "Generated-input search (Hypothesis, 10k cases quick / 300k thorough) against NumPy transcriptions of the two "
    "definitions and the [min,max] robustness bound; no proof, counter-examples only within m <= 9, n <= 6."
)
LEVEL_NOTE = "Trusted: the NumPy reference (sort/trim/mean, pairwise distances), torch CPU kernels, the tie tolerance."
TECHNIQUE = "property-based testing (Hypothesis) with reference-model and validity-predicate oracles, fault injection of corrupted rows"
REQUIRED_CLASSES = {"tm": 1, "krum": 1, "reject": 1, "krum:k>=2": 1, "krum:f>=1": 1}


@st.composite
def _case(draw):
    kind = draw(st.sampled_from(["tm", "tm", "krum", "krum", "krum", "reject"]))
    dtype = draw(st.sampled_from(["float64", "float32"]))
    n = draw(st.integers(1, 6))
    rng = np.random.default_rng(draw(SEEDS))
    if kind == "reject":
        which = draw(st.sampled_from(["tm", "krum_f", "krum_k"]))
        if which == "tm":
            b = draw(st.integers(1, 4))
            m = draw(st.integers(1, 2 * b))
            params = {"agg": "tm", "b": b}
        elif which == "krum_f":
            f = draw(st.integers(0, 4))
            m = draw(st.integers(1, f + 2))
            params = {"agg": "krum", "f": f, "k": draw(st.integers(1, m))}
        else:
            f = draw(st.integers(0, 2))
            m = draw(st.integers(f + 3, f + 5))
            params = {"agg": "krum", "f": f, "k": m + draw(st.integers(1, 3))}
        J = rng.standard_normal((m, n))
        return {"kind": "reject", "dtype": dtype, "J": J.tolist(), **params}
    sig_e = draw(st.integers(-3, 3))
    sigma = 10.0**sig_e
    big_m = draw(st.sampled_from([False, False, False, True]))
    extra_m = 0
    if big_m:
        n = draw(st.sampled_from([n, 16, 64]))
        # dozens of workers, a few cases far beyond the block sizes of batched distance / sort kernels
        extra_m = draw(st.sampled_from([draw(st.integers(20, 40))] * 7 + [130, 300, 600]))
    if kind == "tm":
        b = draw(st.integers(0, 4))
        m = draw(st.integers(2 * b + 1, 2 * b + 1 + draw(st.integers(0, 4)))) + extra_m
        qmax = b
        params = {"b": b}
    else:
        f = draw(st.integers(0, 4))
        m = draw(st.integers(f + 3, f + 3 + draw(st.integers(0, 4)))) + extra_m
        k = draw(st.integers(1, m))
        qmax = f
        params = {"f": f, "k": k}
    if draw(st.booleans()):
        H = rng.standard_normal((m, n)) * sigma
    else:
        H = rng.integers(-4, 5, size=(m, n)) / 2.0 * sigma
    offset_e = draw(st.sampled_from([None, None, 2, 4]))
    if offset_e is not None:
        H = H + 10.0**offset_e * sigma * np.sign(rng.standard_normal(n))  # honest rows share a large common offset
    q = draw(st.integers(0, qmax))
    pos = sorted(rng.choice(m, size=q, replace=False).tolist())
    J = H.copy()
    mag_e = draw(st.sampled_from(list(range(13)) * 2 + [22, 25, 28]))  # up to 1e31 x: squared distances overflow float32
    mode = draw(st.sampled_from(["random", "plus", "minus", "copies", "equal", "mixed", "colwise"]))
    for idx, p in enumerate(pos):
        mag = 10.0**mag_e * sigma
        if mode == "random":
            J[p] = rng.standard_normal(n) * mag
        elif mode == "plus":
            J[p] = mag
        elif mode == "minus":
            J[p] = -mag
        elif mode == "copies":
            honest = [i for i in range(m) if i not in pos]
            J[p] = H[rng.choice(honest)]
        elif mode == "equal":
            J[p] = np.full(n, mag) * (1 if pos.index(p) % 2 == 0 else 1)
        elif mode == "mixed":
            J[p] = np.where(rng.random(n) < 0.5, mag, -mag) * (1 + idx)
        else:
            J[p] = H[p]
            J[p, rng.integers(0, n)] = mag * (-1) ** idx
    return {
        "kind": kind,
        "dtype": dtype,
        "J": J.tolist(),
        "corrupted": pos,
        "sigma_exp": sig_e,
        "mag_exp": mag_e if q and mode != "copies" else 0,
        "mode": mode,
        **params,
    }


def parts(tier):
    n = 10_000 if tier == "quick" else 300_000
    return [Part("generated", "given", n=n, strategy=lambda: widened(_case(), light=True, zero_only=True))]


def run_case(case) -> Outcome:
    out = Outcome()
    dtype = case["dtype"]
    eps = eps_of(dtype)
    Jt = case_tensor(case, getattr(torch, dtype))
    J = Jt.double().numpy()
    m, n = J.shape
    if case["kind"] == "reject":
        A = TrimmedMean(case["b"]) if case["agg"] == "tm" else Krum(case["f"], case["k"])
        out.cls("reject", "reject:" + case["agg"])
        out.nontrivial = True
        try:
            r = A(Jt)
            out.check(False, f"no-rejection:{case['agg']}", f"returned {r.tolist()} for {m} rows")
        except ValueError:
            pass
        except Exception as e:  # noqa: BLE001
            out.check(False, f"wrong-exception:{case['agg']}", f"{type(e).__name__}: {e}")
        return out

    corrupted = case["corrupted"]
    honest = [i for i in range(m) if i not in corrupted]
    big = bool(corrupted) and case["mag_exp"] >= 3
    before = Jt.clone()
    if case["kind"] == "tm":
        b = case["b"]
        out.cls("tm", f"tm:b={min(b, 3)}", f"q={min(len(corrupted), 3)}")
        r = out.call("tm-raises", TrimmedMean(b), Jt)
        if r is RAISED:
            return out
        out.check(torch.equal(before, Jt), "tm-mutates-input")
        out.check(tuple(r.shape) == (n,) and r.dtype == Jt.dtype, "tm-shape-dtype", f"{r.shape} {r.dtype}")
        r = r.double().numpy()
        ref = refs.trimmed_mean(J, b)
        kept_max = np.abs(np.sort(J, axis=0)[b : m - b]).max(axis=0)
        err = np.abs(r - ref)
        out.check((err <= 8 * eps * kept_max * max(1, m - 2 * b) ** 0.5 + 1e-300).all(), "tm-value",
                  f"got {r.tolist()} want {ref.tolist()} (b={b})")
        lo, hi = J[honest].min(axis=0), J[honest].max(axis=0)
        slack = 4 * eps * np.maximum(np.abs(lo), np.abs(hi))
        out.check(((r >= lo - slack) & (r <= hi + slack)).all(), "tm-robustness",
                  f"output {r.tolist()} outside [{lo.tolist()}, {hi.tolist()}] of untouched rows")
        out.nontrivial = big
        return out

    f, k = case["f"], case["k"]
    out.cls("krum", f"q={min(len(corrupted), 3)}")
    if k >= 2:
        out.cls("krum:k>=2")
    if f >= 1:
        out.cls("krum:f>=1")
    A = Krum(f, k)
    r = out.call("krum-raises", A, Jt)
    w = out.call("krum-weighting-raises", A.weighting, Jt)
    if r is RAISED or w is RAISED:
        return out
    out.check(torch.equal(before, Jt), "krum-mutates-input")
    w = w.double().numpy()
    r = r.double().numpy()
    sel = np.nonzero(w)[0]
    ok_w = (
        w.shape == (m,)
        and len(sel) == k
        and (w >= 0).all()
        and np.allclose(w[sel], 1.0 / k, rtol=4 * eps, atol=0)
    )
    out.check(ok_w, "krum-weights", f"weights {w.tolist()} are not 1/{k} on exactly {k} rows")
    if ok_w:
        scores = refs.krum_scores(J, f)
        # Scores that are not representable in the dtype: a squared distance above max(dtype) is inf in the implementation's
        # arithmetic, so every score that includes it is inf and such scores TIE (any tie-break is accepted, as for exact
        # ties). Squared distances within a factor 4 of the overflow level are ambiguous: those rows are not constrained.
        fmax = float(torch.finfo(getattr(torch, dtype)).max)
        d2 = np.stack([((J - J[i]) ** 2).sum(-1) for i in range(m)])
        overflow, ambiguous = np.zeros(m, bool), np.zeros(m, bool)
        for i in range(m):
            inc = np.sort(np.delete(d2[i], i))[: m - f - 2]
            overflow[i] = bool((inc > 4 * fmax).any())
            ambiguous[i] = bool((inc > 0.25 * fmax).any()) and not overflow[i]
        scores = np.where(overflow | ambiguous, np.inf, scores)
        if overflow.any() or ambiguous.any():
            out.cls("krum-scores-overflow-the-dtype")
        kth = np.sort(scores)[k - 1]
        # differences of nearby floats are exact (Sterbenz), so distances computed from differences carry only
        # (n+2) eps relative error whatever common offset the rows share
        tol = 50 * (n + m) * eps
        must = set(np.nonzero(scores < kth * (1 - tol))[0].tolist())
        may_not = set(np.nonzero((scores > kth * (1 + tol)) & ~ambiguous)[0].tolist()) if np.isfinite(kth) else set()
        S = set(sel.tolist())
        out.check(must <= S and not (S & may_not), "krum-selection",
                  f"selected {sorted(S)}; reference scores {scores.tolist()} (f={f}, k={k})")
        n_tied = int(((scores >= kth * (1 - tol)) & (scores <= kth * (1 + tol))).sum())
        if n_tied > 1:
            out.cls("krum-tie-at-cut")
        avg = J[sel].mean(axis=0)
        out.check((np.abs(r - avg) <= 8 * eps * np.abs(J[sel]).max() * k**0.5 + 1e-300).all(), "krum-average",
                  f"got {r.tolist()}, average of selected rows {avg.tolist()}")
    out.nontrivial = big and (k >= 2 or f >= 1)
    return out
