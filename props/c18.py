"""C18 - MGDA, PCGrad, CAGrad, GradDrop and Random satisfy their published definitions."""

import itertools

import numpy as np
import torch
from hypothesis import strategies as st

from vlib import aggs, refs
from vlib.matrices import case_tensor, widened, FAMILIES, SEEDS, eps_of, matrices, smax
from vlib.runner import RAISED, Outcome, Part

ID = "C18"
RULE = (
    "Hypothesis-generated cases of five kinds. mgda: J from ten families (1<=m<=7), epsilon/max_iters drawn; weights "
    ">= 0, sum 1, |A(J)| <= |mean row|; m=2 (incl. parallel, equal, zero rows): closed-form min-norm point of the "
    "segment. random: m<=64, drawn seeds: weights > 0, sum 1, equal seeds give equal weights. cagrad: c in [0,5]: "
    "| |A(J)-g0| - c|g0| | <= tau_d, or (A(J) ~ 0 and the exact min-norm point of the hull is ~0), c=0 gives g0. "
    "pcgrad: the harness owns the schedule (torch.randperm scripted): ALL (m!)^m scripts for m<=3 and all "
    "((m-1)!)^m reduced scripts for m=4 on each drawn matrix, output == float64 transcription of Algorithm 1 "
    "(project the already projected row) for that schedule when every branch margin exceeds the threshold; an "
    "unscripted seeded call must land in the candidate set; no conflict => plain sum. graddrop: drawn seeds and leak "
    "in [0,1]^m or None: every coordinate is the positive-kept or the negative-kept candidate, single-sign columns "
    "keep their own sign, zero columns give 0. Non-trivial: conflicting rows (mgda/cagrad), >=1 projection and a "
    "schedule-dependent result (pcgrad), a mixed-sign column with a leak not in {0,1} (graddrop), m>=2 (random). "
    "Distinct = distinct case description."
    " One CAGrad case in five and one MGDA / Random / GradDrop case in 14 is widened by 5000 / 70 000 columns."
    " Two-row MGDA: mode `balanced` (optimum within 1e-5..1e-3 of the barycentre), epsilon in {0, 1e-3, 0.5, 1, 100}."
)
ASSUMPTIONS = [
    "PCGrad draws its orders through torch.randperm (scripted by patching that public function for the call); if the "
    "script is not consumed the check falls back to membership in the finite candidate set",
    "CAGrad: float32 uses tau_d = K sqrt(eps) s (1 + c|g0|/max(|mu*|, norm_eps s)) (noise floor of the reduced matrix)",
    "GradDrop: U == 0 exactly (probability 2^-24 per draw) is tolerated once per case by re-seeding",
]
LEVEL_TEXT = (
    "Generated-input search against definitional oracles; PCGrad schedules enumerated exhaustively for m <= 4 on "
    "every drawn matrix (the harness controls the schedule). No proof."
)
LEVEL_NOTE = "Trusted: NumPy transcriptions of the published definitions, exact min-norm reference, calibrated constants."
TECHNIQUE = "property-based testing (Hypothesis) with definitional oracles and harness-owned schedule enumeration"
REQUIRED_CLASSES = {"mgda": 1, "mgda:m=2": 1, "random": 1, "cagrad": 1, "cagrad:stationary-branch": 1,
                    "pcgrad:m=3": 1, "pcgrad:m=4": 1, "pcgrad:schedule-dependent": 1, "graddrop": 1,
                    "graddrop:mixed-column": 1}

K = 50.0


@st.composite
def _case(draw):
    kind = draw(st.sampled_from(["mgda", "mgda", "mgda2", "random", "cagrad", "cagrad", "pcgrad", "pcgrad", "graddrop",
                                 "graddrop"]))
    if kind == "mgda":
        mc = draw(matrices(m_max=7, n_max=10, families=FAMILIES, max_scale_exp=3))
        spec = {"name": "MGDA"}
        if draw(st.booleans()):
            spec["epsilon"] = draw(st.sampled_from([0.0, 1e-6, 1e-3, 1e-1]))
            spec["max_iters"] = draw(st.sampled_from([1, 2, 5, 20, 100, 250]))
        return {"kind": "mgda", "J": mc["J"], "dtype": mc["dtype"], "family": mc["family"], "agg": spec}
    if kind == "mgda2":
        dtype = draw(st.sampled_from(["float64", "float32"]))
        n = draw(st.integers(1, 6))
        mode = draw(st.sampled_from(["grid", "gauss", "parallel", "antiparallel", "equal", "zero", "one-zero", "near", "balanced"]))
        rng = np.random.default_rng(draw(SEEDS))
        if mode == "grid":
            J = np.array(draw(st.lists(st.integers(-4, 4), min_size=2 * n, max_size=2 * n)), float).reshape(2, n) / 2
        else:
            g = rng.standard_normal(n)
            if mode == "gauss":
                J = np.stack([g, rng.standard_normal(n)])
            elif mode == "parallel":
                J = np.stack([g, g * 10.0 ** rng.uniform(-2, 2)])
            elif mode == "antiparallel":
                J = np.stack([g, -g * 10.0 ** rng.uniform(-2, 2)])
            elif mode == "equal":
                J = np.stack([g, g])
            elif mode == "zero":
                J = np.zeros((2, n))
            elif mode == "one-zero":
                J = np.stack([g, np.zeros(n)])
            elif mode == "balanced":
                # two rows of almost equal length: the optimum is within 1e-5 .. 1e-3 of the barycentre Frank-Wolfe starts
                # from, so its single exact step is SMALL (below the default stopping threshold) - and still has to be taken
                h = rng.standard_normal(n)
                h = h / max(np.linalg.norm(h), 1e-300) * np.linalg.norm(g) * (1.0 + 10.0 ** rng.uniform(-5, -3))
                J = np.stack([g, h])
            else:
                J = np.stack([g, g + 10.0 ** rng.uniform(-3, -1) * rng.standard_normal(n)])
        J = J * 10.0 ** draw(st.integers(-3, 3))
        spec = {"name": "MGDA"}
        if draw(st.booleans()):
            # (any epsilon: the first step is exact for two rows, the stopping test only decides whether a second one is tried)
            spec["epsilon"] = draw(st.sampled_from([0.0, 1e-3, 1e-3, 0.5, 1.0, 100.0]))
            spec["max_iters"] = draw(st.sampled_from([1, 2, 100]))
        return {"kind": "mgda", "J": J.tolist(), "dtype": dtype, "family": "two-rows:" + mode, "agg": spec}
    if kind == "random":
        m = draw(st.sampled_from([1, 2, 3, 5, 8, 17, 64, draw(st.integers(1, 64))]))
        n = draw(st.integers(1, 4))
        rng = np.random.default_rng(draw(SEEDS))
        J = rng.standard_normal((m, n))
        return {"kind": "random", "J": J.tolist(), "dtype": draw(st.sampled_from(["float64", "float32"])),
                "seed": draw(st.integers(0, 2**31 - 1))}
    if kind == "cagrad":
        fams = list(FAMILIES) + ["stationary", "stationary", "conflict"]
        mc = draw(matrices(m_max=6, n_max=8, families=fams, max_scale_exp=3))
        c = draw(st.sampled_from([0.0, 0.5, 1.0, 2.0, 5.0, draw(st.floats(0.0, 5.0))]))
        # one case in five is wide (CAGrad goes through the normalisation helper shared with UPGrad/DualProj, where
        # size-keyed paths would live; zero columns leave the geometry untouched)
        extra = draw(st.sampled_from([None] * 8 + [{"k": 70_000, "kind": "zero"}, {"k": 5000, "kind": "zero"}]))
        return {"kind": "cagrad", "J": mc["J"], "dtype": mc["dtype"], "family": mc["family"], "c": c, "extra_cols": extra, "xseed": 0}
    if kind == "pcgrad":
        m = draw(st.sampled_from([1, 2, 3, 3, 3, 4]))
        fams = ["gauss", "gauss", "conflict", "svd", "rowscaled", "grid"]
        mc = draw(matrices(m_min=m, m_max=m, n_min=1, n_max=6, families=fams, max_scale_exp=2))
        return {"kind": "pcgrad", "J": mc["J"], "dtype": mc["dtype"], "family": mc["family"],
                "seed": draw(st.integers(0, 2**31 - 1))}
    m = draw(st.integers(1, 6))
    n = draw(st.integers(1, 8))
    dtype = draw(st.sampled_from(["float64", "float32"]))
    rng = np.random.default_rng(draw(SEEDS))
    if draw(st.booleans()):
        J = rng.integers(-2, 3, size=(m, n)).astype(float)
    else:
        J = rng.standard_normal((m, n))
    colmode = rng.integers(0, 4, size=n)
    J[:, colmode == 1] = np.abs(J[:, colmode == 1])
    J[:, colmode == 2] = -np.abs(J[:, colmode == 2])
    if draw(st.sampled_from([True] + [False] * 5)):
        J[:, rng.integers(0, n)] = 0.0
    J = J * 10.0 ** draw(st.integers(-3, 3))
    lk = draw(st.sampled_from(["none", "zeros", "ones", "random", "random", "binary"]))
    leak = None
    if lk == "zeros":
        leak = [0.0] * m
    elif lk == "ones":
        leak = [1.0] * m
    elif lk == "random":
        leak = rng.uniform(0, 1, size=m).tolist()
    elif lk == "binary":
        leak = rng.integers(0, 2, size=m).astype(float).tolist()
    return {"kind": "graddrop", "J": J.tolist(), "dtype": dtype, "leak": leak, "seed": draw(st.integers(0, 2**31 - 1))}


def parts(tier):
    n = 6_000 if tier == "quick" else 150_000
    return [Part("generated", "given", n=n, strategy=lambda: widened(_case(), light=True, skip=lambda c: c.get("kind") == "pcgrad"))]  # (the PCGrad reference enumerates schedules)


# ------------------------------------------------------------------------------------------------


def _mgda(case, out):
    dtype = case["dtype"]
    eps = eps_of(dtype)
    Jt = case_tensor(case, getattr(torch, dtype))
    J = Jt.double().numpy()
    m, n = J.shape
    s = smax(J)
    A = aggs.make(case["agg"], dtype)
    out.cls("mgda", "family:" + case["family"])
    x = out.call("raises:MGDA", A, Jt)
    w = out.call("raises:MGDA.weighting", A.weighting, Jt)
    if x is RAISED or w is RAISED:
        return
    x, w = x.double().numpy(), w.double().numpy()
    fp = K * m * eps
    out.within(max(float(-w.min()), 0.0), fp, "mgda-weights-nonneg", f"weights {w.tolist()}")
    out.within(abs(float(w.sum()) - 1.0), fp, "mgda-weights-sum-1", f"sum {w.sum()!r}")
    out.within(float(np.linalg.norm(x - J.T @ w)), fp * s * max(1.0, np.abs(w).sum()) + 1e-300, "mgda-combination",
               "A(J) != J^T weighting(J)")
    mean = J.mean(axis=0)
    out.within(float(np.linalg.norm(x)), float(np.linalg.norm(mean)) + fp * s + 1e-300, "mgda-longer-than-mean",
               f"|A(J)| = {np.linalg.norm(x):.6e} > |mean| = {np.linalg.norm(mean):.6e}")
    if m == 2:
        out.cls("mgda:m=2")
        g1, g2 = J
        d2 = float((g1 - g2) @ (g1 - g2))
        if d2 == 0.0:
            want = g2
            amp = 1.0
        else:
            gamma = min(1.0, max(0.0, float((g2 - g1) @ g2) / d2))
            want = gamma * g1 + (1 - gamma) * g2
            amp = max(1.0, s / np.sqrt(d2))
        # every further Frank-Wolfe iteration recomputes a step from a cancelling difference (b - a ~ 0 at the optimum):
        # the rounding accumulates linearly with the number of iterations actually allowed
        its = max(1.0, min(case["agg"].get("max_iters", 100), 100) / 4)
        out.within(float(np.linalg.norm(x - want)), K * eps * s * amp * its + 1e-300, "mgda-two-rows-closed-form",
                   f"got {x.tolist()}, min-norm point of the segment {want.tolist()}")
    out.nontrivial = m >= 2 and bool((J @ J.T < 0).any())


def _random(case, out):
    dtype = case["dtype"]
    eps = eps_of(dtype)
    Jt = case_tensor(case, getattr(torch, dtype))
    m = Jt.shape[0]
    A = aggs.make({"name": "Random"}, dtype)
    out.cls("random", f"random:m>={8 if m >= 8 else 1}")
    torch.manual_seed(case["seed"])
    w = out.call("raises:Random", A.weighting, Jt)
    torch.manual_seed(case["seed"])
    x = out.call("raises:Random", A, Jt)
    torch.manual_seed(case["seed"])
    w2 = out.call("raises:Random", A.weighting, Jt)
    if w is RAISED or x is RAISED or w2 is RAISED:
        return
    out.check(tuple(w.shape) == (m,), "random-shape", str(tuple(w.shape)))
    out.check(bool((w > 0).all()), "random-weights-positive", f"weights {w.tolist()}")
    out.within(abs(float(w.double().sum()) - 1.0), K * m * eps, "random-weights-sum-1", f"sum {float(w.sum())!r}")
    out.check(torch.equal(w, w2), "random-seed-reproducible", "equal seeds gave different weights")
    out.check(torch.equal(x, w @ Jt), "random-combination", "A(J) != weights @ J under the same seed")
    out.nontrivial = m >= 2


def _cagrad(case, out):
    dtype, c = case["dtype"], case["c"]
    eps = eps_of(dtype)
    Jt = case_tensor(case, getattr(torch, dtype))
    J = Jt.double().numpy()
    m, n = J.shape
    s = smax(J)
    norm_eps = 1e-4
    out.cls("cagrad", "family:" + case["family"])
    if 0 < s < 2 * norm_eps:
        out.excluded = "s-below-2-norm_eps"
        return
    A = aggs.make({"name": "CAGrad", "c": c}, dtype)
    x = out.call("raises:CAGrad", A, Jt)
    if x is RAISED:
        return
    x = x.double().numpy()
    g0 = J.mean(axis=0)
    ng0 = float(np.linalg.norm(g0))
    mu2, _ = refs.min_norm_hull(J)
    mu = np.sqrt(mu2)
    se = np.sqrt(eps)
    tau_d = K * se * s * (1.0 + c * ng0 / max(mu, norm_eps * s, 1e-300)) + 1e-300
    dist_err = abs(float(np.linalg.norm(x - g0)) - c * ng0)
    stationary = mu <= max(2 * norm_eps, 3 * se) * s
    tau_0 = (5e-3 if dtype == "float32" else 1e-9) * s
    zero_branch = float(np.linalg.norm(x)) <= tau_0 and stationary
    out.metric("ratio:cagrad-distance", 0.0 if zero_branch else dist_err / tau_d)
    out.check(dist_err <= tau_d or zero_branch, "cagrad-distance",
              f"| |A(J)-g0| - c|g0| | = {dist_err:.3e} > tau_d = {tau_d:.3e}; |A(J)| = {np.linalg.norm(x):.3e}, "
              f"|g0| = {ng0:.3e}, c = {c}, min-norm of hull = {mu:.3e}, s = {s:.3e}")
    if zero_branch and dist_err > tau_d:
        out.cls("cagrad:stationary-branch")
    if c == 0.0:
        # c = 0 is plain averaging; the "approximately on the Pareto front => zero vector" branch of the
        # implementation is the statement's "(or the zero vector at stationarity)" and is accepted here as well.
        out.cls("cagrad:c=0")
        e0 = float(np.linalg.norm(x - g0))
        t0 = K * m * eps * s + 1e-300
        out.metric("ratio:cagrad-c0-is-mean", 0.0 if zero_branch else e0 / t0)
        out.check(e0 <= t0 or zero_branch, "cagrad-c0-is-mean", f"{x.tolist()} vs mean {g0.tolist()} (min-norm of hull {mu:.3e})")
    if tau_d < 0.1 * c * ng0:
        out.cls("cagrad:sharp")
        out.nontrivial = m >= 2 and bool((J @ J.T < 0).any()) and c > 0


class _ScriptedRandperm:
    def __init__(self, script):
        self.script, self.calls, self.orig = script, 0, torch.randperm

    def __enter__(self):
        def fake(n, *a, **k):
            i = self.calls
            self.calls += 1
            if i < len(self.script) and len(self.script[i]) == n:
                return torch.tensor(self.script[i], dtype=torch.int64)
            return self.orig(n, *a, **k)

        torch.randperm = fake
        return self

    def __exit__(self, *exc):
        torch.randperm = self.orig


def _schedules(m):
    """All (m!)^m scripts for m <= 3; for m = 4 the ((m-1)!)^m reduced scripts (row i itself first)."""
    per_row = []
    for i in range(m):
        if m <= 3:
            per_row.append([list(p) for p in itertools.permutations(range(m))])
        else:
            others = [j for j in range(m) if j != i]
            per_row.append([[i] + list(p) for p in itertools.permutations(others)])
    return itertools.product(*per_row)


def _pcgrad(case, out):
    dtype = case["dtype"]
    eps = eps_of(dtype)
    Jt = case_tensor(case, getattr(torch, dtype))
    J = Jt.double().numpy()
    m, n = J.shape
    s = smax(J)
    A = aggs.make({"name": "PCGrad"}, dtype)
    out.cls("pcgrad", f"pcgrad:m={m}")
    norms = np.linalg.norm(J, axis=1)
    thr = 1e-4 if dtype == "float32" else 1e-10
    tol = K * m * m * eps * float(norms.sum()) + 1e-300
    refs_seen = []
    n_sched = n_checked = n_projecting = 0
    consumed_ok = True
    for sched in _schedules(m):
        n_sched += 1
        sched = [list(o) for o in sched]
        margin = refs.pcgrad_margin(J, sched)
        want = refs.pcgrad(J, sched)
        refs_seen.append(want)
        if margin < thr:
            continue
        with _ScriptedRandperm(sched) as sc:
            x = out.call("raises:PCGrad", A, Jt)
        if x is RAISED:
            return
        if sc.calls != m:
            consumed_ok = False
            break
        n_checked += 1
        x = x.double().numpy()
        err = float(np.linalg.norm(x - want))
        if not out.within(err, tol, "pcgrad-schedule",
                          f"schedule {sched}: got {x.tolist()}, Algorithm 1 gives {want.tolist()} (margin {margin:.2e})"):
            break
    out.evals = max(1, n_checked)
    cand = np.array(refs_seen)
    spread = float(np.max(np.linalg.norm(cand - cand[0], axis=1))) if len(cand) else 0.0
    G = J @ J.T
    conflicts = bool((G < 0).any())
    # an unscripted, seeded call must produce one of the finitely many schedule results
    torch.manual_seed(case["seed"])
    x = out.call("raises:PCGrad", A, Jt)
    if x is RAISED:
        return
    x = x.double().numpy()
    dmin = float(np.min(np.linalg.norm(cand - x, axis=1)))
    all_margins_ok = n_checked == n_sched
    if all_margins_ok or not consumed_ok:
        out.within(dmin, tol, "pcgrad-candidate-set", f"seeded call gave {x.tolist()}, not among the {len(cand)} schedule results")
    if not consumed_ok:
        out.cls("pcgrad:script-not-consumed")
    if not conflicts:
        out.cls("pcgrad:no-conflict")
        out.within(float(np.linalg.norm(x - J.sum(axis=0))), tol, "pcgrad-no-conflict-is-sum", f"{x.tolist()}")
    if spread > 100 * tol:
        out.cls("pcgrad:schedule-dependent")
    out.nontrivial = conflicts and spread > 100 * tol and n_checked > 0


def _graddrop(case, out):
    dtype = case["dtype"]
    eps = eps_of(dtype)
    Jt = case_tensor(case, getattr(torch, dtype))
    J = Jt.double().numpy()
    m, n = J.shape
    leak_t = None if case["leak"] is None else torch.tensor(case["leak"], dtype=Jt.dtype)
    leak = np.zeros(m) if leak_t is None else leak_t.double().numpy()
    A = aggs.make({"name": "GradDrop", "leak": case["leak"]}, dtype)
    out.cls("graddrop", "graddrop:leak=" + ("none" if case["leak"] is None else "given"))
    pos_kept = ((leak[:, None] + (1 - leak[:, None]) * (J > 0)) * J).sum(axis=0)
    neg_kept = ((leak[:, None] + (1 - leak[:, None]) * (J < 0)) * J).sum(axis=0)
    tol = K * eps * np.abs(J).sum(axis=0) + 1e-300
    has_pos, has_neg = (J > 0).any(axis=0), (J < 0).any(axis=0)
    mixed = has_pos & has_neg
    for attempt in range(2):
        torch.manual_seed(case["seed"] + attempt)
        x = out.call("raises:GradDrop", A, Jt)
        if x is RAISED:
            return
        x = x.double().numpy()
        ok_pos = np.abs(x - pos_kept) <= tol
        ok_neg = np.abs(x - neg_kept) <= tol
        good = np.where(mixed, ok_pos | ok_neg, np.where(has_pos, ok_pos, np.where(has_neg, ok_neg, x == 0)))
        if good.all():
            break
    j = int(np.argmin(good))
    out.check(good.all(), "graddrop-definition",
              f"column {j}: got {x[j]!r}, candidates keep-positive {pos_kept[j]!r} / keep-negative {neg_kept[j]!r}, "
              f"column {J[:, j].tolist()}, leak {leak.tolist()}")
    if mixed.any():
        out.cls("graddrop:mixed-column")
    out.nontrivial = bool(mixed.any()) and bool(((leak > 0) & (leak < 1)).any())


def run_case(case) -> Outcome:
    out = Outcome()
    out.cls(case["dtype"])
    {"mgda": _mgda, "random": _random, "cagrad": _cagrad, "pcgrad": _pcgrad, "graddrop": _graddrop}[case["kind"]](case, out)
    return out
