"""C10 - The order of the objectives does not matter (row-permutation invariance / equivariance)."""

import itertools

import numpy as np
import torch
from hypothesis import strategies as st

from vlib import aggs, relations as rel
from vlib.matrices import case_tensor, widened, SEEDS, build, eps_of, smax
from vlib.runner import RAISED, Outcome, Part

ID = "C10"
RULE = (
    "Hypothesis-generated (aggregator configuration, J, dtype); for each case ALL m! row permutations are applied "
    "when m <= 4 (quick) / m <= 5 (thorough) and 20 drawn permutations for m up to 8. Aggregators: UPGrad, DualProj, "
    "MGDA, Mean, Sum, Aligned-MTL, IMTL-G, ConFIG, CAGrad, TrimmedMean, Krum, GradDrop (fixed seed), and with a "
    "configured vector permuted together with the rows: UPGrad/DualProj/Aligned-MTL/ConFIG(pref), Constant(weights), "
    "GradDrop(leak). Oracle: A(J[pi]) ~ A(J) (resp. A_{v[pi]}(J[pi]) ~ A_v(J)): bitwise for TrimmedMean, fp for the "
    "linear ones, QP/conic tolerance for UPGrad/DualProj/CAGrad, cond^2 eps for the pinv/eigh based ones on "
    "full-row-rank matrices, Krum away from score ties, MGDA at fp level when every Frank-Wolfe decision margin "
    "exceeds the threshold on both sides and within d(J)+d(J[pi]) of each other otherwise. Duplicate rows only for "
    "the tie-insensitive aggregators. Non-trivial = pi != id applied to a matrix with pairwise distinct rows (and a "
    "non-constant configured vector for the equivariance cases). Distinct = distinct (configuration, J, dtype)."
    " `many-rows` (Krum, TrimmedMean, Mean, Sum, GradDrop): 26-44 rows, one in two beyond that up to 1100; one case in 14 widened by 5000 / 70 000 columns."
)
ASSUMPTIONS = [
    "decision margins computed by float64 transcriptions (refs.krum_scores, refs.mgda_frank_wolfe)",
    "GradDrop: a flip of `f(P) > U` caused by summing a column in another order is tolerated by one re-seeded retry",
]
LEVEL_TEXT = (
    "Generated-input search with exhaustive enumeration of the m! permutations of every generated matrix for m <= 5 "
    "(thorough) and metamorphic oracles with per-algorithm tolerances. No proof."
)
LEVEL_NOTE = "Trusted: float64 margin computations deciding which tolerance level applies; calibrated constant K."
TECHNIQUE = "property-based testing (Hypothesis) with metamorphic (permutation) relations, all m! permutations per matrix for small m"
REQUIRED_CLASSES = {"equivariance": 1, "MGDA:tight": 1, "Krum": 1, "all-permutations": 1}

INV = ["UPGrad", "DualProj", "MGDA", "Mean", "Sum", "AlignedMTL", "IMTLG", "ConFIG", "CAGrad", "TrimmedMean", "Krum",
       "GradDrop", "Constant"]
TIE_OK = ("UPGrad", "DualProj", "Mean", "Sum", "TrimmedMean")


@st.composite
def _case(draw, tier="quick"):
    name = draw(st.sampled_from(INV))
    dtype = draw(st.sampled_from(["float64", "float32"]))
    rng = np.random.default_rng(draw(SEEDS))
    m = draw(st.sampled_from([2, 3, 3, 4, 4, 5, 5, draw(st.integers(1, 8))]))
    if name == "Krum":
        m = max(m, 4)
    full = name in rel.RANK_BASED or name == "CAGrad"
    n = draw(st.integers(m if full else 1, 10))
    spec = {"name": name}
    if name in ("UPGrad", "DualProj", "AlignedMTL", "ConFIG") and draw(st.booleans()):
        spec["pref"] = (10.0 ** rng.uniform(-1, 1, size=m)).tolist()
    if name in ("UPGrad", "DualProj"):
        spec["reg_eps"] = draw(st.sampled_from([1e-4, 1e-2, 1e-3]))
    if name == "Constant":
        spec["weights"] = rng.standard_normal(m).tolist()
    if name == "GradDrop" and draw(st.booleans()):
        spec["leak"] = rng.uniform(0, 1, size=m).tolist()
        if draw(st.booleans()):  # entries exactly 0 (never leaks) or 1 (always leaks), at any position
            for i in rng.choice(m, size=int(rng.integers(1, m + 1)), replace=False):
                spec["leak"][int(i)] = float(rng.integers(0, 2))
    if name == "MGDA" and draw(st.booleans()):
        spec["epsilon"] = draw(st.sampled_from([0.0, 1e-3]))
        spec["max_iters"] = draw(st.sampled_from([1, 3, 10, 100]))
    if name == "CAGrad":
        spec["c"] = draw(st.sampled_from([0.3, 0.5, 1.0, 2.0]))
    if name == "Krum":
        spec["f"] = draw(st.integers(0, max(0, m - 4)))  # neighbourhood m-f-2 >= 2: no structural ties
        spec["k"] = draw(st.integers(1, m))
    if name == "TrimmedMean":
        spec["b"] = draw(st.integers(0, (m - 1) // 2))
    if full:
        cmax = 1.4 if dtype == "float32" else 2.4
        J = build("svd", m, n, rng, {"cond": 10.0 ** draw(st.floats(0, cmax))})
        fam = "svd_full"
        if name in rel.RANK_BASED and m >= 3 and draw(st.sampled_from([True, False, False])):
            # tall matrix (more objectives than parameters): rank n < m, but unambiguous - the column space is well conditioned
            n = draw(st.integers(1, m - 1))
            if draw(st.booleans()):
                J = rng.integers(-9, 10, size=(m, n)) / 10.0  # "hand-typed" one-decimal entries
            else:
                J = build("svd", m, n, rng, {"cond": 10.0 ** draw(st.floats(0, 1.0))})
            fam = "tall"
        elif m >= 2 and draw(st.sampled_from([True, False, False, False])):
            # exactly-zero rows: rank deficient but numerically unambiguous (objectives that are already stationary)
            J[rng.choice(m, size=int(rng.integers(1, m)), replace=False)] = 0.0
            fam = "svd_full+zero_rows"
    else:
        fams = ["gauss", "gauss", "svd", "conflict", "stationary", "lowrank", "rowscaled3"]
        if name in TIE_OK:
            fams += ["dup", "grid", "zero_rows"]
        if name == "GradDrop":
            fams += ["zero_rows", "zero_rows"]  # an objective with an exactly-zero gradient (tie-insensitive here)
        if name in ("Krum", "TrimmedMean", "Mean", "Sum", "GradDrop") and draw(st.sampled_from([True, False, False])):
            fams = ["many-rows"]
        fam = draw(st.sampled_from(fams))
        if fam == "many-rows":
            # dozens of workers: rows sharing a large common component (Krum) / a few rows with huge outliers (TrimmedMean)
            # (a few far beyond the block / kernel-switch sizes of batched distance and sort implementations)
            m = draw(st.sampled_from([draw(st.integers(26, 44))] * 6 + [70, 130, 260, 300, 520, 1100]))
            n = draw(st.sampled_from([4, 8, 16]))
            J = rng.standard_normal((m, n)) * rng.uniform(0.3, 3.0, size=(m, 1))
            if name == "GradDrop" and "leak" in spec:
                spec["leak"] = rng.uniform(0, 1, size=m).tolist()
            if name in ("Mean", "Sum", "GradDrop"):
                pass
            elif name == "Krum":
                J = J + 10.0 ** draw(st.sampled_from([3, 4])) * np.sign(rng.standard_normal(n))
                spec["f"] = draw(st.integers(0, 5))
                spec["k"] = draw(st.integers(1, 3))
                dtype = "float32" if draw(st.sampled_from([True, True, False])) else dtype
            else:
                spec["b"] = draw(st.integers(1, 5))
                out_rows = rng.choice(m, size=spec["b"], replace=False)
                J[out_rows] = J[out_rows] + 10.0 ** draw(st.sampled_from([6, 9])) * np.sign(rng.standard_normal((len(out_rows), 1)))
        elif fam == "grid":
            J = rng.integers(-4, 5, size=(m, n)) / 2.0
        elif fam == "rowscaled3":
            J = build("rowscaled", m, n, rng, {"decades": 1.5})
        else:
            J = build(fam, m, n, rng, {"cond": 30.0, "rank": draw(st.integers(1, max(1, min(m, n)))), "eps": 1e-2,
                                       "delta": 1e-2})
    J = J * 10.0 ** draw(st.integers(-3, 3))
    max_all = 4 if tier == "quick" else 5
    if name == "Krum" and fam not in ("many-rows",) and draw(st.sampled_from([True, False, False, False])):
        # one finite row so far away that its squared distances overflow (inf scores / inf distances must not disturb
        # the ranking of the others)
        J = np.array(J, dtype=float)
        J[int(rng.integers(0, m))] *= 1e25 if dtype == "float32" else 1e160
        fam = fam + "+huge-row"
    if m <= max_all:
        perms = "all"
    else:
        perms = [rng.permutation(m).tolist() for _ in range(20 if m > 5 else 24)]
    return {"agg": spec, "dtype": dtype, "J": J.tolist(), "family": fam, "perms": perms,
            "seed": draw(st.integers(0, 2**31 - 1))}


def parts(tier):
    n = 3_000 if tier == "quick" else 60_000
    return [Part("generated", "given", n=n, strategy=lambda: widened(_case(tier), light=True, zero_only=lambda c: c["family"].endswith("+huge-row")))]


def _permuted_spec(spec, pi):
    sp = dict(spec)
    for key in ("pref", "weights", "leak"):
        if sp.get(key) is not None:
            sp[key] = [sp[key][i] for i in pi]
    return sp


def _run(spec, dtype, Jt, seed, A=None):
    A = A if A is not None else aggs.make(spec, dtype)
    torch.manual_seed(seed)
    return A, A(Jt)


def run_case(case) -> Outcome:
    out = Outcome()
    spec, dtype = case["agg"], case["dtype"]
    name = spec["name"]
    eps = eps_of(dtype)
    tdt = getattr(torch, dtype)
    Jt = case_tensor(case, tdt)
    J = Jt.double().numpy()
    m, n = J.shape
    s = smax(J)
    out.cls(name, dtype, "family:" + case["family"])
    reason = rel.domain_exclusion(spec, dtype, J)
    if reason:
        out.excluded = reason
        return out
    configured = next((spec[k] for k in ("pref", "weights", "leak") if spec.get(k) is not None), None)
    if configured is not None:
        out.cls("equivariance")
    distinct_rows = len({tuple(r) for r in J.tolist()}) == m
    if case["family"].endswith("+zero_rows") or (name == "GradDrop" and case["family"] == "zero_rows"):
        out.cls("zero-rows")
        distinct_rows = True  # zero rows are exact duplicates of each other, but no score tie is involved for these aggregators
    if not distinct_rows and name not in TIE_OK:
        out.excluded = "duplicate-rows-for-tie-sensitive-aggregator"
        return out
    res = out.call(f"raises:{name}", _run, spec, dtype, Jt, case["seed"])
    if res is RAISED:
        return out
    A, x0t = res
    x0 = x0t.double().numpy()
    wn = rel.weights_norm(A, Jt) if name not in ("GradDrop", "TrimmedMean", "ConFIG") else 1.0
    tol = rel.base_tolerance(spec, dtype, J, wn, float(np.linalg.norm(x0)))
    if case["perms"] == "all":
        perms = [list(p) for p in itertools.permutations(range(m))]
        out.cls("all-permutations")
    else:
        perms = case["perms"]
    mgda_tight0 = None
    if name == "MGDA":
        mgda_tight0 = rel.mgda_margin(spec, J) > rel.MARGIN[dtype]
        d0 = None
    n_eval = 0
    for pi in perms:
        if pi == list(range(m)):
            continue
        n_eval += 1
        Jp = Jt[pi]
        sp = _permuted_spec(spec, pi)
        # without a configured vector the SAME instance serves every permutation (as in a training loop)
        r = out.call(f"raises:{name}", _run, sp, dtype, Jp, case["seed"], A if configured is None else None)
        if r is RAISED:
            return out
        x1 = r[1].double().numpy()
        err = float(np.linalg.norm(x1 - x0))
        label = f"row-permutation:{name}" + ("+configured-vector" if configured is not None else "")
        msg = f"pi = {pi}: A(J[pi]) = {x1.tolist()} vs A(J) = {x0.tolist()}"
        if name == "TrimmedMean":
            ok = out.check(torch.equal(r[1], x0t), label, msg + " (must be bitwise equal)")
        elif name == "MGDA":
            tight = mgda_tight0 and rel.mgda_margin(spec, J[pi]) > rel.MARGIN[dtype]
            if tight:
                out.cls("MGDA:tight")
                T = spec.get("max_iters", 100)
                ok = out.within(err, tol * max(1, min(T, 30)), label, msg)
            else:
                out.cls("MGDA:loose")
                if d0 is None:
                    d0 = rel.mgda_loose_bound(J, x0)
                bound = d0 + rel.mgda_loose_bound(J[pi], x1) + tol
                ok = out.check(err <= bound, label + ":loose", msg + f" differ by {err:.3e} > d(J)+d(J[pi]) = {bound:.3e}")
        elif name == "GradDrop" and err > tol:
            r2 = _run(sp, dtype, Jp, case["seed"] + 1, A if configured is None else None)[1].double().numpy()
            x0b = _run(spec, dtype, Jt, case["seed"] + 1, A if configured is None else None)[1].double().numpy()
            ok = out.within(float(np.linalg.norm(r2 - x0b)), tol, label, msg + " (and again after re-seeding)")
        else:
            ok = out.within(err, tol, label, msg)
        if not ok:
            break
    out.evals = max(1, n_eval)
    nonconst = configured is None or len(set(configured)) > 1
    out.nontrivial = n_eval > 0 and distinct_rows and nonconst and m >= 2
    return out
