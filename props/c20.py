"""C20 - A call rejected for its arguments changes nothing."""

import numpy as np
import torch
from hypothesis import strategies as st

from torchjd import backward, mtl_backward
from torchjd.aggregation import Aggregator
from props import c02
from vlib import jdcheck, programs as P
from vlib.probes import diff_snapshots, snapshot
from vlib.runner import Outcome, Part

ID = "C20"
RULE = (
    "Fault injection. A valid backward / mtl_backward call is generated (random program / trunk-heads program, "
    "pre-existing .grad on drawn leaves, aggregator, chunk size), then ONE fault of a drawn kind is injected at a "
    "drawn position: chunk size 0 / negative; empty tensors / features / losses; non-scalar loss at position p; too "
    "few / too many parameter groups; a shared leaf inserted into task list t at position p; a duplicated tensor in "
    "tensors / features / inputs / a task list / shared_params; a parameter that is a non-leaf without retain_grad, "
    "or does not require grad (a foreign tensor, or a parameter frozen with requires_grad_(False) after an earlier valid "
    "call on the same graph), at position p of inputs / shared_params / task list t, the groups being passed as list / "
    "tuple / one-shot generator; in backward an aggregator "
    "that rejects the Jacobian (Constant with m+-1 weights, Krum with too few rows, an aggregator raising "
    "ValueError). Oracle: if the call raises, the snapshot (value bitwise, .grad None-ness, .grad content bitwise, "
    ".grad storage pointer) of EVERY leaf and intermediate tensor is identical before and after; the fault kinds "
    "documented as rejected must raise; the unfaulted call must not raise. Non-trivial = the offending argument is "
    "not at the first position and at least one valid parameter with an observable .grad precedes it (or, for "
    "whole-call faults, the call has >= 2 parameters). Distinct = distinct (program, call, fault)."
)
ASSUMPTIONS = [
    "`a duplicate in inputs` is de-duplicated silently by backward (set(inputs)); it is only held to the conditional form",
    "in mtl_backward a rejection by the aggregator itself is outside the statement and not injected",
]
LEVEL_TEXT = (
    "Fault enumeration by generation: every documented kind of invalid argument, at generated positions, over "
    "generated valid remainders, with a full before/after snapshot oracle. No proof."
)
LEVEL_NOTE = "Trusted: the snapshot/diff helper (values, grads, storage pointers of all leaves and intermediates)."
TECHNIQUE = "property-based fault injection (Hypothesis): one invalid argument per generated call, before/after snapshot oracle"
REQUIRED_CLASSES = {"fault:none": 1, "fault:nonleaf-param": 1, "fault:nograd-param": 1, "fault:aggregator-rejects": 1,
                    "fault:overlap": 1, "late-position": 1}

B_FAULTS = ["none", "chunk", "empty-tensors", "dup-tensor", "dup-input", "nonleaf-param", "nonleaf-param", "nograd-param",
            "nograd-param", "frozen-param", "aggregator-rejects", "aggregator-rejects"]
M_FAULTS = ["none", "chunk", "empty-features", "empty-losses", "nonscalar-loss", "count-mismatch", "overlap", "overlap",
            "dup-feature", "dup-task-param", "dup-shared", "nonleaf-param", "nonleaf-param", "nograd-param", "nograd-param",
            "frozen-param", "frozen-param"]
MUST_RAISE = {"frozen-param", "chunk", "empty-tensors", "empty-features", "empty-losses", "nonscalar-loss", "count-mismatch", "overlap",
              "dup-tensor", "nonleaf-param", "nograd-param", "aggregator-rejects", "dup-feature", "dup-task-param",
              "dup-shared"}


class Rejecting(Aggregator):
    def forward(self, matrix):
        raise ValueError("this aggregator rejects every matrix")


@st.composite
def _case(draw):
    rng = np.random.default_rng(draw(st.integers(0, 2**32 - 1)))
    kind = draw(st.sampled_from(["backward", "mtl"]))
    if kind == "backward":
        prog = draw(P.programs(max_leaves=4, max_nodes=8, max_outputs=3, min_leaves=2))
        fault = B_FAULTS[int(rng.integers(0, len(B_FAULTS)))]
        shapes = P.infer_shapes(prog)
        m = sum(P.numel(shapes[tuple(r)]) for r in prog["outputs"])
    else:
        prog = draw(P.mtl_programs(allow_around=False))
        fault = M_FAULTS[int(rng.integers(0, len(M_FAULTS)))]
        m = len(prog["losses"])
    return {"kind": kind, "prog": prog, "fault": fault, "dice": rng.integers(0, 10**6, size=6).tolist(),
            "agg": jdcheck.jd_aggregator(rng, m), "chunk": [None, 1, 2][int(rng.integers(0, 3))],
            "pre": jdcheck.pre_grads(rng, prog, 0.7),
            # parameter groups are Iterable[Tensor]: lists, tuples, one-shot generators
            "container": ["list", "list", "tuple", "generator"][int(rng.integers(0, 4))]}


def parts(tier):
    n = 6_000 if tier == "quick" else 150_000
    return [Part("generated", "given", n=n, strategy=_case)]


def _wrap(items, kind):
    return tuple(items) if kind == "tuple" else (x for x in list(items)) if kind == "generator" else list(items)


def _insert(lst, pos, item):
    pos = pos % (len(lst) + 1)
    return lst[:pos] + [item] + lst[pos:], pos


def _nonleaf(g, prog, exclude_refs):
    """An intermediate tensor requiring grad (non-leaf, no retain_grad), preferably upstream of the outputs."""
    cands = [(ref, t) for ref, t in g.values.items() if ref[0] == "n" and t.requires_grad and not t.is_leaf and list(ref) not in
             [list(r) for r in exclude_refs]]
    return cands


def run_case(case) -> Outcome:
    out = Outcome()
    prog, dtype, fault = case["prog"], case["prog"]["dtype"], case["fault"]
    tdt = getattr(torch, dtype)
    d = case["dice"]
    dual = P.run_dual(prog)
    if not jdcheck.scale_ok(dtype, dual.max_abs):
        out.excluded = "values-or-tangents-exceed-1e6"
        return out
    out.cls(case["kind"], "fault:" + fault)
    g = P.TorchGraph(prog)
    jdcheck.set_pre_grads(g.leaves, case["pre"])
    agg = jdcheck.make_recording(case["agg"], dtype)
    chunk = case["chunk"]
    nograd = torch.ones(2, dtype=tdt)
    late = False
    n_params = 0

    if case["kind"] == "backward":
        tensors = [g.get(r) for r in prog["outputs"]]
        inputs = [g.leaves[i] for i in sorted(P.leaf_deps(prog, prog["outputs"]))]
        n_params = len(inputs)
        if fault == "chunk":
            chunk = [0, -1, -3][d[0] % 3]
        elif fault == "empty-tensors":
            tensors = []
        elif fault == "dup-tensor":
            tensors, pos = _insert(tensors, d[0], tensors[d[1] % len(tensors)])
        elif fault == "dup-input":
            inputs, pos = _insert(inputs, d[0], inputs[d[1] % len(inputs)])
        elif fault in ("nonleaf-param", "nograd-param"):
            if fault == "nonleaf-param":
                cands = _nonleaf(g, prog, [])
                if not cands:
                    out.excluded = "no-intermediate-tensor"
                    return out
                bad = cands[d[1] % len(cands)][1]
            else:
                bad = nograd
            inputs, pos = _insert(inputs, d[0], bad)
            late = pos > 0
        elif fault == "aggregator-rejects":
            m = sum(t.numel() for t in tensors)
            which = d[0] % 3
            if which == 0:
                from torchjd.aggregation import Constant

                agg = Constant(torch.ones(m + (1 if d[1] % 2 or m == 1 else -1), dtype=tdt))
            elif which == 1:
                from torchjd.aggregation import Krum

                agg = Krum(n_byzantine=m, n_selected=1)
            else:
                agg = Rejecting()
            late = n_params >= 2
        elif fault == "frozen-param":
            # a valid call first (the graph is retained), then one parameter is frozen and the same call is repeated
            try:
                backward(tensors, agg, inputs=list(inputs), parallel_chunk_size=chunk, retain_graph=True)
            except Exception as e:  # noqa: BLE001
                out.check(False, "valid-call-raises", f"{type(e).__name__}: {e}")
                return out
            pos = d[0] % len(inputs)
            inputs[pos].requires_grad_(False)
            late = pos > 0
        cont = case.get("container", "list")
        out.cls("container:" + cont)
        call = lambda: backward(tensors, agg, inputs=_wrap(inputs, cont), parallel_chunk_size=chunk, retain_graph=True)  # noqa: E731
    else:
        feats = [g.get(f) for f in prog["features"]]
        losses = [g.get(l) for l in prog["losses"]]
        shared = [g.leaves[i] for i in prog["shared_leaves"]]
        tasks = [[g.leaves[i] for i in t] for t in prog["task_leaves"]]
        n_params = len(shared) + sum(len(t) for t in tasks)
        t_idx = d[2] % len(tasks)
        preceding = lambda t, pos: (sum(len(x) for x in tasks[:t]) + pos) > 0  # noqa: E731
        if fault == "chunk":
            chunk = [0, -1, -3][d[0] % 3]
        elif fault == "empty-features":
            feats = []
        elif fault == "empty-losses":
            losses, tasks = [], []
        elif fault == "nonscalar-loss":
            bad = feats[0] if feats[0].ndim > 0 else torch.stack([losses[0], losses[0]])
            pos = d[0] % len(losses)
            losses = losses[:pos] + [bad] + losses[pos + 1 :]
            late = pos > 0
        elif fault == "count-mismatch":
            if d[0] % 2 and len(tasks) > 1:
                tasks = tasks[:-1]
            else:
                tasks = tasks + [[]]
            late = n_params >= 2
        elif fault == "overlap":
            tasks[t_idx], pos = _insert(tasks[t_idx], d[0], shared[d[1] % len(shared)])
            late = preceding(t_idx, pos)
        elif fault == "dup-feature":
            feats, pos = _insert(feats, d[0], feats[d[1] % len(feats)])
            late = n_params >= 2
        elif fault == "dup-task-param":
            if not tasks[t_idx]:
                out.excluded = "task-without-params"
                return out
            tasks[t_idx], pos = _insert(tasks[t_idx], d[0], tasks[t_idx][d[1] % len(tasks[t_idx])])
            late = preceding(t_idx, pos)
        elif fault == "dup-shared":
            shared, pos = _insert(shared, d[0], shared[d[1] % len(shared)])
            late = sum(len(t) for t in tasks) > 0
        elif fault in ("nonleaf-param", "nograd-param"):
            if fault == "nonleaf-param":
                cands = _nonleaf(g, prog, prog["features"])
                # an intermediate of the trunk for shared_params, of the heads for a task list: any intermediate will do
                if not cands:
                    out.excluded = "no-intermediate-tensor"
                    return out
                bad = cands[d[1] % len(cands)][1]
            else:
                bad = nograd
            if d[3] % 3 == 0:
                shared, pos = _insert(shared, d[0], bad)
                late = sum(len(t) for t in tasks) > 0 or pos > 0
                out.cls("bad-param-in:shared")
            else:
                tasks[t_idx], pos = _insert(tasks[t_idx], d[0], bad)
                late = preceding(t_idx, pos)
                out.cls("bad-param-in:task")
        elif fault == "frozen-param":
            try:
                mtl_backward(losses, feats, agg, tasks_params=[list(t) for t in tasks], shared_params=list(shared),
                             parallel_chunk_size=chunk, retain_graph=True)
            except Exception as e:  # noqa: BLE001
                out.check(False, "valid-call-raises", f"{type(e).__name__}: {e}")
                return out
            if d[4] % 2 == 0:
                # defaulted lists below: freeze a leaf that the default discovery will find (one the losses depend on)
                reach = sorted(P.leaf_deps(prog, prog["losses"]))
                li = reach[d[0] % len(reach)]
                g.leaves[li].requires_grad_(False)
                late = True
            elif d[3] % 3 == 0 or not tasks[t_idx]:
                pos = d[0] % len(shared)
                shared[pos].requires_grad_(False)
                late = sum(len(t) for t in tasks) > 0 or pos > 0
            else:
                pos = d[0] % len(tasks[t_idx])
                tasks[t_idx][pos].requires_grad_(False)
                late = preceding(t_idx, pos)
        cont = case.get("container", "list")
        out.cls("container:" + cont)
        if fault == "frozen-param" and d[4] % 2 == 0:
            # the same rejected call with the parameter lists left to their defaults (the frozen leaf is still in the graph)
            out.cls("defaulted-lists")
            call = lambda: mtl_backward(losses, feats, agg, parallel_chunk_size=chunk, retain_graph=True)  # noqa: E731
        else:
            call = lambda: mtl_backward(losses, feats, agg, tasks_params=[_wrap(t, cont) for t in tasks],  # noqa: E731
                                        shared_params=_wrap(shared, cont), parallel_chunk_size=chunk, retain_graph=True)

    tensors_all = {str(ref): t for ref, t in g.values.items()}
    tensors_all["nograd"] = nograd
    snap = snapshot(tensors_all)
    try:
        call()
        raised = None
    except Exception as e:  # noqa: BLE001 - the exception type is recorded, not constrained
        raised = e
    if fault == "none":
        out.check(raised is None, "valid-call-raises", f"{type(raised).__name__}: {raised}" if raised else "")
        out.nontrivial = False
        return out
    if raised is None:
        out.check(fault not in MUST_RAISE, f"not-rejected:{fault}", "the call with the injected fault returned normally")
        out.cls("accepted:" + fault)
        return out
    out.cls("raised:" + type(raised).__name__)
    changed = diff_snapshots(snap, snapshot(tensors_all))
    out.check(not changed, f"state-changed-by-rejected-call:{case['kind']}:{fault}",
              f"{type(raised).__name__} was raised after modifying {changed[:6]}")
    if late:
        out.cls("late-position")
    out.nontrivial = late and n_params >= 1
    return out
