"""C04 - Non-conflicting aggregators never oppose any objective (UPGrad, DualProj, MGDA, CAGrad c>=1)."""

import itertools

import numpy as np
import torch
from hypothesis import strategies as st

from vlib import aggs, refs
from vlib.matrices import case_tensor, widened, FAMILIES, SEEDS, eps_of, matrices, smax
from vlib.runner import RAISED, Outcome, Part

ID = "C04"
RULE = (
    "Two parts. (1) Hypothesis-generated J from ten families (conflicting pairs down to 1e-6 off antiparallel, low "
    "rank, stationary, row norms over 12 decades, duplicates, zero rows, ...), 1<=m<=7, 1<=n<=10, global scale "
    "10^[-3,3], both dtypes, with UPGrad/DualProj (pref vectors incl. zeros, reg_eps 10^[-8,-1]), "
    "MGDA(epsilon=0, max_iters in {1,2,3,5,10,30,100,300,1000,3000}) and default MGDA, CAGrad(c in [1,10]). (2) Exhaustive "
    "enumeration of every matrix with entries in {-1,0,1} of the nine shapes 1x1..3x3 (21 297 matrices; quick: all "
    "shapes with <= 6 entries and a seeded 10% of 3x3) for the four aggregators. Oracle (validity predicate): every "
    "entry of J.A(J) >= -allowance - fp, allowance = reg_eps s^2 w_i (UPGrad/DualProj, w = A.weighting(J)), "
    "s sqrt(|A(J)|^2 - mu) for MGDA with mu the exact min-norm^2 (support enumeration) and additionally "
    "|A(J)|^2 - mu <= 8 s^2/(T+2) when epsilon=0, tau s^2 max(1,|w|) for CAGrad (w = A.weighting(J)). Non-trivial = the plain mean "
    "conflicts with some row. Distinct = distinct (J, aggregator configuration, dtype)."
    " Part `mgda_long_budgets`: MGDA(epsilon=0) with 30 000 (thorough: up to 100 000) iterations on 4-8 Gaussian rows. reg_eps in "
    "{0, 1e-16, 1e-13, 1e-10} (below the documented domain) in 1/8 of the UPGrad/DualProj cases: the solver may refuse; a returned "
    "vector must satisfy min_i (J A(J))_i >= -1e-4 s^2 (|w|+1). One case in three is widened by 90..140 000 columns."
)
ASSUMPTIONS = [
    "fp = K m eps(dtype) s^2 |w| with K = 500 (MGDA, CAGrad) and 100 max(1, 1e-2/sqrt(reg_eps)) for UPGrad/DualProj "
    "(quadprog's dual-feasibility rounding grows with the conditioning of the regularised Gramian); CAGrad tau = 2e-4 (float64) / 3e-3 (float32) (>= 10x calibrated worst)",
    "UPGrad/DualProj in the documented reg_eps domain (see C03); s >= 2 norm_eps",
]
LEVEL_TEXT = (
    "Generated-input search with scale-relative allowances taken from the statement, plus complete enumeration of the "
    "finite {-1,0,1} sub-domain up to 3x3 (thorough tier). No proof beyond that sub-domain."
)
LEVEL_NOTE = "Trusted: NumPy float64 evaluation of J.A(J), the support-enumeration min-norm reference, tau calibration."
TECHNIQUE = "property-based testing (Hypothesis) + exhaustive small-domain enumeration with a validity-predicate oracle"
REQUIRED_CLASSES = {"UPGrad": 1, "DualProj": 1, "MGDA": 1, "CAGrad": 1, "mean-conflicts": 100}

K = 500.0
TAU = {"float64": 2e-4, "float32": 3e-3}
T_VALUES = [1, 2, 3, 5, 10, 30, 100, 300, 1000, 3000]


@st.composite
def _case(draw):
    fams = [f for f in FAMILIES if f != "nonconflict"] + ["conflict", "conflict", "stationary", "stationary", "rowscaled", "gauss",
                                                           "rowscaled_mild", "rowscaled_mild"]
    mc = draw(matrices(m_min=draw(st.sampled_from([1, 2, 2, 2])), m_max=7, n_max=10, families=fams, max_scale_exp=3))
    m = len(mc["J"])
    name = draw(st.sampled_from(["UPGrad", "DualProj", "MGDA", "MGDA", "CAGrad", "CAGrad"]))
    spec = {"name": name}
    if name in ("UPGrad", "DualProj"):
        kind = draw(st.sampled_from(["none", "random", "zeros"]))
        if kind != "none":
            rng = np.random.default_rng(draw(SEEDS))
            v = 10.0 ** rng.uniform(-2, 1, size=m)
            if kind == "zeros" and m >= 2:
                v[rng.choice(m, size=int(rng.integers(1, m)), replace=False)] = 0.0
            spec["pref"] = v.tolist()
            if draw(st.sampled_from([True, False, False, False])):
                # preference given as an INTEGER tensor (e.g. tensor([1, 0, 2])): accepted, and must mean the same thing
                spec["pref"] = np.round(rng.uniform(0, 3, size=m)).tolist()
                if not any(spec["pref"]):
                    spec["pref"][0] = 1.0
                spec["pref_int"] = True
        spec["reg_eps"] = 10.0 ** draw(st.integers(-8, -1))
        if draw(st.sampled_from([True] + [False] * 7)):
            spec["reg_eps"] = draw(st.sampled_from([0.0, 1e-16, 1e-13, 1e-10]))  # below the documented domain: see run_case
    elif name == "MGDA":
        if draw(st.sampled_from([True, True, True, True, False])):
            spec["epsilon"] = 0.0
            spec["max_iters"] = draw(st.sampled_from(T_VALUES))
    else:
        spec["c"] = draw(st.sampled_from([1.0, 1.0, 1.5, 2.0, 5.0, 10.0, 1.0 + draw(st.floats(0.0, 9.0))]))
    return {"J": mc["J"], "dtype": mc["dtype"], "family": mc["family"], "agg": spec}


def _enum_cases(tier):
    def build():
        cases = []
        rng = np.random.default_rng(12345)
        for m, n in itertools.product((1, 2, 3), (1, 2, 3)):
            for vals in itertools.product((-1.0, 0.0, 1.0), repeat=m * n):
                if tier == "quick" and m * n > 6 and rng.random() >= 0.10:
                    continue
                J = [list(vals[i * n : (i + 1) * n]) for i in range(m)]
                for spec in ({"name": "UPGrad"}, {"name": "DualProj"}, {"name": "MGDA"}, {"name": "CAGrad", "c": 1.0}):
                    cases.append({"J": J, "dtype": "float64" if (len(cases) // 4) % 2 == 0 else "float32",
                                  "family": "tiny_integer", "agg": spec})
        return cases

    return build


@st.composite
def _long_budget_case(draw, budgets=(30_000,)):
    """MGDA with epsilon = 0 and budgets of 10^4 .. 10^5 iterations on Gaussian matrices whose min-norm point lies on a
    face (Frank-Wolfe zig-zags there): the 8 s^2/(T+2) bound is then within a small factor of being tight."""
    rng = np.random.default_rng(draw(SEEDS))
    m = int(rng.integers(4, 9))
    n = m + int(rng.integers(0, 4))
    J = np.round(rng.standard_normal((m, n)), 2)
    T = budgets[int(rng.integers(0, len(budgets)))]
    # (float64 mostly: in float32 the rounding term of the comparison is larger than the bound at these budgets)
    return {"J": J.tolist(), "dtype": ["float32", "float64", "float64", "float64"][int(rng.integers(0, 4))], "family": "gauss-long-budget",
            "agg": {"name": "MGDA", "epsilon": 0.0, "max_iters": T}}


def parts(tier):
    n = 12_000 if tier == "quick" else 400_000
    note = ("all matrices with entries in {-1,0,1} of shapes 1x1..3x3 x {UPGrad, DualProj, MGDA, CAGrad(1)}"
            if tier == "thorough" else
            "all {-1,0,1} matrices with <= 6 entries (shapes up to 2x3/3x2) and a seeded 10% of 3x3 x 4 aggregators")
    return [
        Part("generated", "given", n=n, strategy=lambda: widened(_case())),
        Part("mgda_long_budgets", "given", n=16 if tier == "quick" else 320,
             strategy=lambda: _long_budget_case(budgets=(30_000,) if tier == "quick" else (30_000, 100_000))),
        Part("tiny_integer", "enum", cases=_enum_cases(tier), exhaustive_note=note),
    ]


def _below_documented_domain(out, case, Jt, J, s):
    """reg_eps + lambda_min(G/s^2) below the rounding noise of the Gramian: the quadratic programme is numerically
    singular and the solver is ALLOWED to refuse it (the call raises; no vector, nothing to oppose). What the property
    still demands is that a vector that IS returned does not oppose an objective. Calibration on the unchanged code
    (2e4 such cases): the worst returned vector had min_i (J A(J))_i >= -2e-7 s^2 |w| (float32), -8e-9 s^2 |w|
    (float64); the bound below leaves a factor 500."""
    spec, name = case["agg"], case["agg"]["name"]
    A = aggs.make(spec, case["dtype"])
    try:
        r = A(Jt)
        w = A.weighting(Jt).double().numpy()
    except Exception:  # noqa: BLE001 - refusing a numerically singular programme is within the contract
        out.excluded = "reg_eps-below-gramian-noise(documented-domain):solver-refuses"
        return out
    out.cls(name, case["dtype"], "family:" + case["family"], "below-documented-reg_eps:returns-a-vector")
    if not out.check(tuple(r.shape) == (J.shape[1],) and bool(torch.isfinite(r).all()), f"shape-finite:{name}", str(r)):
        return out
    prod = J @ r.double().numpy()
    allow = spec.get("reg_eps", 1e-4) * s**2 * np.abs(w)
    viol = float(np.max(-(prod + allow)))
    out.within(max(viol, 0.0), 1e-4 * s**2 * (float(np.linalg.norm(w)) + 1.0), f"conflict-below-documented-reg_eps:{name}",
               f"min_i (J A(J))_i = {prod.min():.3e} with s^2 = {s**2:.3e}, w = {w.tolist()}")
    out.nontrivial = bool((J @ J.T < 0).any())
    return out


def run_case(case) -> Outcome:
    out = Outcome()
    dtype, spec = case["dtype"], case["agg"]
    name = spec["name"]
    eps = eps_of(dtype)
    Jt = case_tensor(case, getattr(torch, dtype))
    J = Jt.double().numpy()
    m, n = J.shape
    s = smax(J)
    norm_eps = 1e-4
    if 0 < s < 2 * norm_eps:
        out.excluded = "s-below-2-norm_eps"
        return out
    lam_min = 0.0
    if name in ("UPGrad", "DualProj"):
        lam_min = max(0.0, float(np.linalg.eigvalsh(J @ J.T)[0]) / s**2) if s > 0 else 0.0
        if spec.get("reg_eps", 1e-4) + lam_min < 50 * m * eps:
            return _below_documented_domain(out, case, Jt, J, s)
    A = aggs.make(spec, dtype)
    out.cls(name, dtype, "family:" + case["family"])
    r = out.call(f"raises:{name}", A, Jt)
    if r is RAISED:
        return out
    if not out.check(tuple(r.shape) == (n,) and bool(torch.isfinite(r).all()), f"shape-finite:{name}", str(r)):
        return out
    x = r.double().numpy()
    prod = J @ x
    if name in ("UPGrad", "DualProj"):
        w = A.weighting(Jt).double().numpy()
        reg = spec.get("reg_eps", 1e-4)
        # quadprog leaves the dual feasibility H w >= 0 violated by rounding that grows with the conditioning of
        # H = G/s^2 + reg I (calibrated on 1e6 cases: ~3 m eps at reg 1e-4, ~300 m eps at reg 1e-8)
        # (below 1e-8 the conditioning is set by the smallest eigenvalue of G/s^2 instead, at least 50 m eps here)
        reg_c = reg if reg >= 1e-8 else max(reg + lam_min, 50 * m * eps)
        fp = 0.2 * K * m * eps * s**2 * float(np.linalg.norm(w)) * max(1.0, 1e-2 / np.sqrt(reg_c)) + 1e-300
        allow = reg * s**2 * np.abs(w)
        viol = float(np.max(-(prod + allow)))
        out.within(max(viol, 0.0), fp, f"conflict:{name}",
                   f"min_i [(J A(J))_i + reg_eps s^2 w_i] = {-viol:.3e} < -fp = {-fp:.3e}; J.A(J)={prod.tolist()} w={w.tolist()}")
    elif name == "MGDA":
        mu, _ = refs.min_norm_hull(J)
        sub = float(x @ x - mu)
        fp = K * m * eps * s**2 + 1e-300
        sub_fp = K * m * (eps + eps_of("float64")) * s**2  # resolution of the difference |A|^2 - mu
        # x is (up to fp) in the hull, so |x|^2 >= mu
        out.within(max(-sub, 0.0), fp, "mgda-below-min-norm", f"|A(J)|^2 - mu = {sub:.3e}")
        allow = s * np.sqrt(max(sub, 0.0) + sub_fp)
        viol = float(np.max(-(prod + allow)))
        out.within(max(viol, 0.0), fp, "conflict:MGDA",
                   f"min_i (J A(J))_i = {prod.min():.3e} < -(s sqrt(|A|^2-mu) = {allow:.3e}) - fp")
        if spec.get("epsilon") == 0.0:
            T = spec["max_iters"]
            out.cls(f"T={T}")
            bound = 8 * s**2 / (T + 2)
            out.within(max(sub, 0.0), bound + fp, "mgda-suboptimality",
                       f"|A(J)|^2 - mu = {sub:.3e} > 8 s^2/(T+2) = {bound:.3e} (T={T})")
    else:
        w = A.weighting(Jt).double().numpy()
        # conic-solver allowance: the weights are accurate to tau relative, hence J J^T w to tau s^2 |w|
        tol = TAU[dtype] * s**2 * max(1.0, float(np.linalg.norm(w))) + 1e-300
        viol = float(np.max(-prod))
        out.within(max(viol, 0.0), tol, "conflict:CAGrad",
                   f"min_i (J A(J))_i = {prod.min():.3e} < -tau s^2 max(1,|w|) = {-tol:.3e} (c={spec['c']}, w={w.tolist()})")
    meanprod = J @ J.mean(axis=0)
    if meanprod.min() < -1e-12 * max(s * s, 1e-300):
        out.cls("mean-conflicts")
        out.nontrivial = True
    return out
