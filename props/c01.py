"""C01 - backward() deposits the aggregation of the true Jacobian into .grad."""

import numpy as np
import torch
from hypothesis import strategies as st

from torchjd import backward
from vlib import jdcheck, large, programs as P, relations as rel
from vlib.matrices import eps_of
from vlib.runner import Outcome, Part

ID = "C01"
RULE = (
    "Hypothesis-generated autograd programs (part `generated`: 1-4 leaves of rank 0-3, 1-8 nodes; part `larger_programs`: "
    "2-6 leaves of rank 0-4, up to 16 nodes, up to 4 outputs) (1-4 leaves of rank 0-3 incl. 0-d, equal-numel leaves favoured, leaves "
    "not requiring grad, unused leaves; 1-8 SSA nodes over 24 ops: smooth unary, add/sub/mul with broadcasting / "
    "reshape / dense-map coercions, reductions, reshape/permute/expand/select/narrow/cat/stack, unbind/split, detach), "
    "1-3 output tensors of any shape (passed as list / tuple / bare tensor), `inputs` = drawn sub-list of the leaves in a "
    "drawn order (passed as list / tuple / generator / set / dict keys) or None, pre-existing "
    ".grad absent or drawn, parallel_chunk_size in {None,1..m+2}, float32/float64, aggregator in {position coding, "
    "Constant(distinct weights incl. negative), Mean, Sum, UPGrad/DualProj(pref), Krum, TrimmedMean} wrapped in a "
    "recording aggregator. Oracle: (i) the matrix seen by the aggregator equals, for some ordering of the inputs, the "
    "Jacobian computed by an independent NumPy dual-number evaluation of the program (rows = output scalars in "
    "listing order, row-major; zeros where an input does not influence a row; total derivative on reuse); (ii) each "
    "input's .grad increment is bitwise its contiguous slice of the returned vector, reshaped row-major, all other "
    ".grad untouched; (iii) a twin run with the inputs listed in another order gives the same increments. "
    "Non-trivial = >= 2 rows and >= 2 inputs and one of: two inputs of equal numel, a reused leaf, an input that does "
    "not influence the outputs, an output of rank >= 2, a 0-d input. Distinct = distinct case description."
    " Further parts: `larger_programs`; `large_inputs` (2-5 rows, 7e4..2.4e6 columns in 2-3 inputs) and `many_rows` (70..1030 rows) with "
    "a closed-form Jacobian of y = tanh(sum_b A_b w_b); a sixth of the explicit-input cases lists a LEAF among `tensors`; a third "
    "passes the raw aggregator, half of those with a user forward hook or as a user subclass overriding forward()."
    " Raw-aggregator variant `learnable`: Constant / UPGrad / DualProj built on a tensor that requires grad. A third of the pre-existing .grad are non-contiguous (a lane of a wider buffer, or column-major)."
)
ASSUMPTIONS = [
    "the NumPy dual-number oracle (validated against plain torch.autograd by tools/selfcheck_programs.py)",
    "derivative tolerance 1e-9 (float64) / 3e-4 (float32) relative to the largest intermediate magnitude; programs whose "
    "values or tangents exceed 1e6 are discarded and counted",
]
LEVEL_TEXT = (
    "Generated-input search over random autograd DAGs with an independent forward-mode oracle and a recording / "
    "position-coding aggregator, so layout errors are detected exactly (bitwise slices). No proof."
)
LEVEL_NOTE = "Trusted: NumPy, torch tensor ops used to build the graphs, the IR shape inference shared by both executors."
TECHNIQUE = "property-based testing (Hypothesis) over generated programs with a reference-model (dual-number) oracle and a metamorphic input-order relation"
REQUIRED_CLASSES = {"equal-numel-inputs": 1, "reused-leaf": 1, "unused-input": 1, "rank>=2-output": 1, "0d-input": 1,
                    "chunked": 1, "inputs=None": 1, "pre-existing-grad": 1, "unwrapped:hook": 1, "unwrapped:subclass": 1, "leaf-among-tensors": 1}


@st.composite
def _case(draw, big=False):
    # configuration choices are expanded from a seed drawn FIRST: Hypothesis biases late draws of long examples
    # towards their simplest value, which starved the interesting configurations (measured: 51% position coding)
    rng = np.random.default_rng(draw(st.integers(0, 2**32 - 1)))
    if big:
        prog = draw(P.programs(max_leaves=6, max_nodes=16, max_outputs=4, min_leaves=draw(st.sampled_from([2, 3, 4])), max_rank=4))
    else:
        prog = draw(P.programs(max_leaves=4, max_nodes=8, max_outputs=3, min_leaves=draw(st.sampled_from([1, 2, 2, 3]))))
    shapes = P.infer_shapes(prog)
    m = sum(P.numel(shapes[tuple(r)]) for r in prog["outputs"])
    rg = [i for i, lf in enumerate(prog["leaves"]) if lf["rg"]]
    if rng.integers(0, 7) == 0:
        inputs = None
    else:
        k = [len(rg), len(rg), int(rng.integers(1, len(rg) + 1))][int(rng.integers(0, 3))]
        inputs = [rg[i] for i in rng.permutation(len(rg))][:k]
    if inputs is not None and rng.integers(0, 6) == 0:
        # one of `tensors` is itself a leaf requiring grad (the identity program; accepted with explicit `inputs`):
        # its rows are rows of the identity w.r.t. itself and zeros elsewhere
        prog = dict(prog, outputs=list(prog["outputs"]))
        prog["outputs"].insert(int(rng.integers(0, len(prog["outputs"]) + 1)), ["l", int(rg[int(rng.integers(0, len(rg)))])])
        m = sum(P.numel(shapes[tuple(r)]) for r in prog["outputs"])
    chunks = [None, None, 1] + list(range(1, m + 3))
    return {
        "prog": prog,
        "inputs": inputs,
        "agg": jdcheck.jd_aggregator(rng, m),
        "chunk": chunks[int(rng.integers(0, len(chunks)))],
        "pre": jdcheck.pre_grads(rng, prog),
        "shuffle_seed": int(rng.integers(0, 1000)),
        # `tensors` is a Sequence[Tensor] | Tensor, `inputs` an Iterable[Tensor]
        # a third of the cases pass the aggregator itself (no recording wrapper), so that code paths keyed on the
        # aggregator's type are exercised; the expectation is then A(oracle Jacobian), sliced per input
        "unwrapped": bool(rng.integers(0, 3) == 0),
        # ... and of those, some carry a user forward hook that rewrites the output, or are an instance of a user
        # subclass overriding forward(): `aggregator(J)` - the nn.Module call - is what the property names
        # "learnable": the configured weight / preference vector requires grad (learnt task weights), so the aggregated vector
        # carries a grad_fn - its VALUE must still be added to an existing .grad
        "custom": ["plain", "plain", "hook", "subclass", "learnable"][int(rng.integers(0, 5))],
        "containers": [["list", "tuple", "tensor"][int(rng.integers(0, 3))], ["list", "tuple", "generator", "set", "dict-keys"][int(rng.integers(0, 5))]],
    }


def parts(tier):
    n = 20_000 if tier == "quick" else 600_000
    n_big = 1_500 if tier == "quick" else 60_000
    return [Part("generated", "given", n=n, strategy=_case),
            Part("larger_programs", "given", n=n_big, strategy=lambda: _case(big=True)),
            # Jacobians of 10^5 .. 10^7 entries (closed-form oracle): size-dependent paths in the pipeline
            Part("large_inputs", "given", n=32 if tier == "quick" else 480, strategy=lambda: large.cases("backward")),
            # hundreds of rows in one batched differentiation
            Part("many_rows", "given", n=32 if tier == "quick" else 480, strategy=lambda: large.cases("backward", tall=True))]


def _features(prog, inputs, shapes, dual):
    f = []
    nums = [P.numel(prog["leaves"][i]["shape"]) for i in inputs]
    if len(set(nums)) < len(nums):
        f.append("equal-numel-inputs")
    uses = {}
    for nd in prog["nodes"]:
        for a in nd["args"]:
            if a[0] == "l":
                uses[a[1]] = uses.get(a[1], 0) + 1
    if any(uses.get(i, 0) >= 2 for i in inputs):
        f.append("reused-leaf")
    deps = P.leaf_deps(prog, prog["outputs"])
    if any(i not in deps for i in inputs):
        f.append("unused-input")
    if any(len(shapes[tuple(r)]) >= 2 for r in prog["outputs"]):
        f.append("rank>=2-output")
    if any(len(prog["leaves"][i]["shape"]) == 0 for i in inputs):
        f.append("0d-input")
    return f


def _customise(agg, custom, spec=None, dtype=None):
    if custom == "learnable" and spec is not None:
        from torchjd import aggregation as A

        tdt = getattr(torch, dtype)
        if spec["name"] == "Constant":
            return A.Constant(torch.tensor(spec["weights"], dtype=tdt, requires_grad=True))
        if spec["name"] in ("UPGrad", "DualProj") and spec.get("pref") is not None:
            return getattr(A, spec["name"])(pref_vector=torch.tensor(spec["pref"], dtype=tdt, requires_grad=True))
        return agg
    if custom == "hook":
        agg.register_forward_hook(lambda _mod, _args, o: o * 2.0)
    elif custom == "subclass":
        base = type(agg)
        agg.__class__ = type("User" + base.__name__, (base,), {"forward": lambda self, M, _b=base: torch.tanh(_b.forward(self, M))})
    return agg


def _call(prog, inputs, spec, chunk, pre, containers=("list", "list"), unwrapped=False, custom="plain"):
    g = P.TorchGraph(prog)
    before = jdcheck.set_pre_grads(g.leaves, pre)
    rec = jdcheck.make_recording(spec, prog["dtype"])
    if unwrapped:
        rec = _customise(rec.inner, custom, spec, prog["dtype"])
    tensors = [g.get(r) for r in prog["outputs"]]
    if containers[0] == "tuple":
        tensors = tuple(tensors)
    elif containers[0] == "tensor" and len(tensors) == 1:
        tensors = tensors[0]
    kw = {}
    if inputs is not None:
        ins = [g.leaves[i] for i in inputs]
        kind = containers[1]
        kw["inputs"] = (tuple(ins) if kind == "tuple" else (x for x in ins) if kind == "generator" else set(ins) if kind == "set"
                        else dict.fromkeys(ins).keys() if kind == "dict-keys" else ins)
    backward(tensors, rec, parallel_chunk_size=chunk, **kw)
    return g, before, rec


def _check_unwrapped(out, case, prog, spec, dtype, dual, g, before, agg, expected_inputs, m, feats):
    """No recording wrapper: the increments must equal A(oracle Jacobian) sliced per input (A is column-equivariant,
    so the slices do not depend on the unknown internal ordering)."""
    out.cls("unwrapped-aggregator", "unwrapped:" + case.get("custom", "plain"))
    blocks = jdcheck.oracle_rows(dual, prog, prog["outputs"], expected_inputs)
    if not expected_inputs:
        return out
    Jfull = np.concatenate([blocks[i] for i in expected_inputs], axis=1)
    Jt = torch.tensor(Jfull, dtype=getattr(torch, dtype))
    if rel.domain_exclusion(spec, dtype, Jfull) is not None:
        out.excluded = "aggregator-domain"
        return out
    x = agg(Jt).detach().double().numpy()
    with torch.no_grad():
        wn = rel.weights_norm(agg, Jt) if spec["name"] != "TrimmedMean" else 1.0
    tol = rel.base_tolerance(spec, dtype, Jfull, wn, float(np.linalg.norm(x))) * 4 + jdcheck.deriv_tol(dtype, dual.max_abs) * max(1.0, wn) * m
    tol *= 2.0 if case.get("custom", "plain") == "hook" else 1.0  # the hook doubles the output (tanh is 1-Lipschitz)
    off = 0
    for i in expected_inputs:
        k = blocks[i].shape[1]
        leaf = g.leaves[i]
        if out.check(leaf.grad is not None, "grad-missing", f"input {i}"):
            got = (leaf.grad.detach() - (before[i] if before[i] is not None else 0)).double().numpy().reshape(-1)
            out.within(float(np.abs(got - x[off : off + k]).max(initial=0.0)), tol, "backward:differs-from-aggregated-oracle-jacobian",
                       f"input {i}: increment {got.tolist()} vs A(J)[{off}:{off + k}] = {x[off:off + k].tolist()} ({spec})")
        off += k
    for i, leaf in enumerate(g.leaves):
        if i not in expected_inputs:
            old = before[i]
            same = (leaf.grad is None and old is None) or (leaf.grad is not None and old is not None and torch.equal(leaf.grad.detach(), old))
            out.check(same, "non-input-grad-touched", f"leaf {i}")
    out.nontrivial = m >= 2 and len(expected_inputs) >= 2 and bool(feats)
    return out


def run_case(case) -> Outcome:
    out = Outcome()
    if case.get("kind") == "large":
        return large.run(case, out)
    prog, spec, dtype = case["prog"], case["agg"], case["prog"]["dtype"]
    dual = P.run_dual(prog)
    if not jdcheck.scale_ok(dtype, dual.max_abs):
        out.excluded = "values-or-tangents-exceed-1e6"
        return out
    shapes = P.infer_shapes(prog)
    m = sum(P.numel(shapes[tuple(r)]) for r in prog["outputs"])
    inputs = case["inputs"]
    expected_inputs = sorted(P.leaf_deps(prog, prog["outputs"])) if inputs is None else list(inputs)
    out.cls(dtype, "agg:" + spec["name"], "inputs=None" if inputs is None else f"n_inputs={len(inputs)}")
    if case["chunk"] is not None and case["chunk"] < m:
        out.cls("chunked")
    if case["pre"]:
        out.cls("pre-existing-grad")
    feats = _features(prog, expected_inputs, shapes, dual)
    out.cls(*feats)
    if any(r[0] == "l" for r in prog["outputs"]):
        out.cls("leaf-among-tensors")
    unwrapped = bool(case.get("unwrapped")) and spec["name"] in ("Mean", "Sum", "Constant", "UPGrad", "DualProj", "TrimmedMean")
    try:
        g, before, rec = _call(prog, inputs, spec, case["chunk"], case["pre"], case.get("containers", ("list", "list")), unwrapped, case.get("custom", "plain"))
    except Exception as e:  # noqa: BLE001
        out.check(False, f"backward-raises:{type(e).__name__}", str(e)[:300])
        return out
    if unwrapped:
        return _check_unwrapped(out, case, prog, spec, dtype, dual, g, before, rec, expected_inputs, m, feats)
    if not out.check(len(rec.calls) == 1, "aggregator-call-count", f"{len(rec.calls)} calls"):
        return out
    blocks = jdcheck.oracle_rows(dual, prog, prog["outputs"], expected_inputs)
    ok = jdcheck.check_deposit(out, "backward", blocks, g.leaves, before, rec.calls[0], dtype, dual.max_abs)
    for i, leaf in enumerate(g.leaves):
        if i in expected_inputs:
            continue
        old = before[i]
        same = (leaf.grad is None and old is None) or (leaf.grad is not None and old is not None and torch.equal(leaf.grad, old))
        out.check(same, "non-input-grad-touched", f"leaf {i} is not an input but its .grad changed")
    # (iii) order independence on a twin graph (not for position coding, which is not column-equivariant)
    if ok and spec["name"] != "poscode" and len(expected_inputs) >= 2 and inputs is not None:
        M = rec.calls[0][0].double().numpy()
        reason = rel.domain_exclusion(spec, dtype, M) if M.size else "empty"
        if reason is None:
            rng = np.random.default_rng(case["shuffle_seed"])
            shuffled = [inputs[i] for i in rng.permutation(len(inputs))]
            try:
                g2, before2, rec2 = _call(prog, shuffled, spec, case["chunk"], case["pre"])
            except Exception as e:  # noqa: BLE001
                out.check(False, f"backward-raises:{type(e).__name__}", "twin run with shuffled inputs: " + str(e)[:300])
                return out
            x = rec.calls[0][1].double().numpy()
            wn = rel.weights_norm(rec.inner, rec.calls[0][0]) if spec["name"] not in ("TrimmedMean",) else 1.0
            tol = rel.base_tolerance(spec, dtype, M, wn, float(np.linalg.norm(x)))
            for i in inputs:
                d1 = (g.leaves[i].grad - (before[i] if before[i] is not None else 0)).double().numpy()
                d2 = (g2.leaves[i].grad - (before2[i] if before2[i] is not None else 0)).double().numpy()
                out.within(float(np.abs(d1 - d2).max(initial=0.0)), tol + 4 * eps_of(dtype) * float(np.abs(d1).max(initial=0.0) + 1),
                           "input-order-dependence", f"input {i}: increments differ when `inputs` is listed as {shuffled}")
            out.cls("order-relation-checked")
    out.nontrivial = m >= 2 and len(expected_inputs) >= 2 and bool(feats)
    return out
