"""C19 - NashMTL's state: reset() means fresh, weights are reused as scheduled."""

import itertools
import os

import numpy as np
import torch
from hypothesis import strategies as st

from torchjd.aggregation import NashMTL
from vlib.matrices import SEEDS, build
from vlib.runner import RAISED, Outcome, Part

ID = "C19"
RULE = (
    "Histories over an alphabet of well-conditioned matrices (cond <= 10, m <= n) and `reset`. Enumerated: ALL "
    "histories up to length 5 (thorough; 3 in quick) over 3 matrices + reset, for every update_weights_every k in "
    "1..4 (1..3 quick), max_norm in {0.3 (clipping active), 0 (off)}, m in {2,3}, alphabet drawn from VERIF_SEED. "
    "Generated (Hypothesis): histories up to length 10, m in 2..5, k in 1..4, max_norm drawn, float32/float64. "
    "Model: (i) a fresh instance created at construction and at every reset, run in lockstep, must return bitwise "
    "the same vectors; (ii) no call raises; (iii) a k=1, max_norm=0 reference instance fed ONLY the matrices of the "
    "scheduled recompute calls (0, k, 2k, ... since construction/reset) yields the raw weights alpha_j; every call "
    "must return clip(alpha_j @ M) and the weighting hook must report alpha_j (or a positive multiple when clipped); "
    "(iv) |output| <= max_norm (1 + 1e-5) when max_norm > 0. Non-trivial = a history with >= 1 weight-reuse call, or "
    "a reset after >= 1 call followed by >= 1 call. Distinct = distinct (alphabet, parameters, history)."
)
ASSUMPTIONS = [
    "ECOS/cvxpy are deterministic run-to-run in one process (validated; the bitwise lockstep comparison relies on it)",
    "matrices are well-conditioned with 2..5 rows, as the property's quantifier states",
]
LEVEL_TEXT = (
    "Exhaustive enumeration of all call/reset histories up to length 5 over a 4-symbol alphabet for every k in 1..4 "
    "(thorough tier) plus generated longer histories, against a lockstep model of fresh instances and a k=1 "
    "reference fed only the scheduled recompute calls. No proof beyond the enumerated bound."
)
LEVEL_NOTE = "Trusted: determinism of the ECOS solves; torch.nn.Module forward hooks (public API) to observe the weights."
TECHNIQUE = "model-based testing of call histories: exhaustive bounded enumeration + Hypothesis-generated histories against a reference model"
REQUIRED_CLASSES = {"reuse-call": 1, "reset-then-call": 1, "clipped": 1}


def _alphabet(rng, m, count=3, dtype="float64"):
    mats = []
    for _ in range(count):
        n = int(rng.integers(m, m + 4))
        if rng.integers(0, 3) == 0:
            # small-integer entries (still well conditioned): Gramians with rows summing to exactly zero make the inner
            # solver raise, an error path that the implementation swallows and that must not disturb the schedule
            for _try in range(50):
                J = rng.integers(-2, 3, size=(m, n)).astype(float)
                sv = np.linalg.svd(J, compute_uv=False)
                if sv[-1] > 0 and sv[0] / sv[-1] <= 10:
                    break
            else:
                J = np.eye(m, n)
        else:
            J = build("svd", m, n, rng, {"cond": 10.0 ** rng.uniform(0, 1)}) * 10.0 ** rng.uniform(-1, 1)
        mats.append(J.tolist())
    return mats


def _enum_cases(tier):
    def build_cases():
        seed = int(os.environ.get("VERIF_SEED", "1"))
        L = 3 if tier == "quick" else 5
        ks = (1, 2, 3) if tier == "quick" else (1, 2, 3, 4)
        cases = []
        for m in (2, 3):
            rng = np.random.default_rng([seed, m, 19])
            alpha = _alphabet(rng, m)
            for k in ks:
                for max_norm in (0.3, 0.0):
                    for length in range(1, L + 1):
                        for hist in itertools.product((0, 1, 2, "r"), repeat=length):
                            cases.append({"m": m, "k": k, "max_norm": max_norm, "dtype": "float64",
                                          "alphabet": alpha, "history": list(hist)})
        return cases

    return build_cases


@st.composite
def _case(draw):
    m = draw(st.integers(2, 5))
    k = draw(st.integers(1, 4))
    max_norm = draw(st.sampled_from([0.0, 0.1, 0.5, 1.0, 5.0]))
    dtype = draw(st.sampled_from(["float64", "float32"]))
    rng = np.random.default_rng(draw(SEEDS))
    alpha = _alphabet(rng, m, count=draw(st.integers(1, 4)))
    hist = draw(st.lists(st.sampled_from(list(range(len(alpha))) + ["r"]), min_size=2, max_size=10))
    return {"m": m, "k": k, "max_norm": max_norm, "dtype": dtype, "alphabet": alpha, "history": hist}


def parts(tier):
    n = 160 if tier == "quick" else 6_000
    note = ("all histories of length <= %d over {3 matrices, reset} x k x max_norm in {0.3, 0} x m in {2,3}"
            % (3 if tier == "quick" else 5))
    return [
        Part("all_histories", "enum", cases=_enum_cases(tier), exhaustive_note=note),
        Part("generated", "given", n=n, strategy=_case),
    ]


def _mk(case, k=None, max_norm=None):
    return NashMTL(n_tasks=case["m"], max_norm=case["max_norm"] if max_norm is None else max_norm,
                   update_weights_every=case["k"] if k is None else k)


def run_case(case) -> Outcome:
    out = Outcome()
    tdt = getattr(torch, case["dtype"])
    mats = [torch.tensor(J, dtype=tdt) for J in case["alphabet"]]
    k, max_norm = case["k"], case["max_norm"]
    out.cls(f"k={k}", f"m={case['m']}", case["dtype"], "max_norm>0" if max_norm > 0 else "max_norm=0")
    seen = []

    def hook(_mod, _inp, output):
        seen.append(output.detach().clone())

    real = _mk(case)
    real.weighting.register_forward_hook(hook)
    fresh = _mk(case)
    ref = _mk(case, k=1, max_norm=0.0)
    ref_seen = []
    ref.weighting.register_forward_hook(lambda _m, _i, o: ref_seen.append(o.detach().clone()))
    since = 0  # calls since construction / last reset
    alpha = None
    n_calls = n_reuse = 0
    reset_after_call = reset_then_call = False
    for step, sym in enumerate(case["history"]):
        if sym == "r":
            if out.call("reset-raises", real.reset) is RAISED:
                return out
            fresh = _mk(case)
            ref = _mk(case, k=1, max_norm=0.0)
            ref_seen = []
            ref.weighting.register_forward_hook(lambda _m, _i, o, rs=ref_seen: rs.append(o.detach().clone()))
            since = 0
            if n_calls:
                reset_after_call = True
            continue
        M = mats[sym]
        n_calls += 1
        if reset_after_call:
            reset_then_call = True
        recompute = since % k == 0
        try:
            v = real(M)
        except Exception as e:  # noqa: BLE001
            out.check(False, f"call-raises:{type(e).__name__}",
                      f"step {step} ({'recompute' if recompute else 'reuse'} call, {since} calls since reset): {e}")
            return out
        vf = fresh(M)
        if not out.check(torch.equal(v, vf), "reset-not-fresh" if reset_after_call else "instances-disagree",
                         f"step {step}: instance {v.tolist()} vs fresh-since-reset instance {vf.tolist()}"):
            return out
        if recompute:
            ref(M)
            alpha = ref_seen[-1]
        else:
            n_reuse += 1
            out.cls("reuse-call")
        want = alpha @ M
        clipped = False
        if max_norm > 0:
            nrm = torch.linalg.norm(want)
            if nrm > max_norm:
                want = (alpha / nrm * max_norm) @ M
                clipped = True
                out.cls("clipped")
        tol = 1e-6 * float(torch.linalg.norm(want)) + 1e-12
        err = float(torch.linalg.norm(v.double() - want.double()))
        if not out.within(err, tol, "schedule",
                          f"step {step} ({'recompute' if recompute else 'reuse'}, call {since} since reset, k={k}): "
                          f"got {v.tolist()}, reference weights of the last scheduled recompute give {want.tolist()}"):
            return out
        w = seen[-1].double()
        a = alpha.double()
        ratio = float((w @ a) / (a @ a)) if float(a @ a) > 0 else 1.0
        ok = ratio > 0 and float(torch.linalg.norm(w - ratio * a)) <= 1e-6 * float(torch.linalg.norm(w)) + 1e-12
        if not clipped:
            ok = ok and abs(ratio - 1.0) <= 1e-6
        out.check(ok, "weights-not-reused" if not recompute else "weights-mismatch",
                  f"step {step}: weighting returned {w.tolist()}, scheduled weights {a.tolist()} (clipped={clipped})")
        if max_norm > 0:
            out.check(float(torch.linalg.norm(v)) <= max_norm * (1 + 1e-5), "max-norm-exceeded",
                      f"|output| = {float(torch.linalg.norm(v))!r} > max_norm = {max_norm}")
        since += 1
    if reset_then_call:
        out.cls("reset-then-call")
    out.evals = max(1, n_calls)
    out.nontrivial = n_reuse > 0 or reset_then_call
    return out
