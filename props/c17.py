"""C17 - Impartial aggregators treat every objective alike (IMTL-G, ConFIG, Aligned-MTL)."""

import numpy as np
import torch
from hypothesis import strategies as st

from vlib import aggs
from vlib.matrices import case_tensor, widened, SEEDS, build, eps_of
from vlib.runner import RAISED, Outcome, Part

ID = "C17"
RULE = (
    "Hypothesis-generated full-row-rank matrices with prescribed singular values (1<=m<=6, m<=n<=10, cond <= 30 in "
    "float32 / 1e3 in float64 (300 for Aligned-MTL, whose rank cut uses float32 eps), global scale 10^[-6,6] / "
    "10^[-30,30]), optionally padded with 100 / 2000 / 20000 zero columns, optionally on an instance that already "
    "processed the zero matrix or a matrix with a zero row, positive preference vectors over 2 decades, plus zero matrices of all shapes 1..8 x 1..10. "
    "Oracles = the defining equations with tolerance K (m+n) eps cond^2: IMTL-G: weights sum to 1 and (J A)_i / |g_i| equal "
    "for all i; ConFIG: cosines (J A)_i / (|g_i| |A|) positive and proportional to the preference (equal by default) "
    "and |A| = sum_i g_i . A/|A|; Aligned-MTL: r_i = AlignedMTL(e_i)(J) mutually orthogonal with |r_i| = sigma_min(J), "
    "AlignedMTL(u)(J) = sum u_i r_i, default = mean of r_i; zero matrix -> exact zero vector. Excluded (counted): "
    "IMTL-G inputs whose float64 reference has |sum v| / sum|v| < 1e-3. Non-trivial = m >= 2 and the rows are not "
    "already mutually orthogonal with equal norms. Distinct = distinct (J, pref, dtype, aggregator)."
    " One case in three is widened by 90..140 000 Gaussian or zero columns (an all-zero matrix only by zero columns)."
)
ASSUMPTIONS = ["tolerance K (m+n) eps(dtype) cond(J)^2 with K = 50 (Gramian-based pinv/eigh lose cond^2)"]
LEVEL_TEXT = "Generated-input search against the aggregators' defining equations on well-conditioned matrices. No proof."
LEVEL_NOTE = "Trusted: NumPy float64 evaluation of projections/cosines/singular values; K calibrated with >= 10x head-room."
TECHNIQUE = "property-based testing (Hypothesis) with defining-equation (validity predicate) oracles"
REQUIRED_CLASSES = {"wide": 1, "reused-instance": 1, "IMTLG": 1, "ConFIG": 1, "AlignedMTL": 1, "zero-matrix": 1, "pref:custom": 1}

K = 50.0


@st.composite
def _case(draw):
    name = draw(st.sampled_from(["IMTLG", "ConFIG", "AlignedMTL"]))
    dtype = draw(st.sampled_from(["float64", "float32"]))
    if draw(st.sampled_from([True] + [False] * 9)):
        m, n = draw(st.integers(1, 8)), draw(st.integers(1, 10))
        pref = None
        if name != "IMTLG" and draw(st.booleans()):
            pref = [1.0 + i for i in range(m)]
        return {"agg": name, "dtype": dtype, "J": np.zeros((m, n)).tolist(), "pref": pref, "zero": True}
    m = draw(st.integers(1, 6))
    n = draw(st.integers(m, 10))
    cmax = 1.47 if dtype == "float32" else (2.47 if name == "AlignedMTL" else 3.0)
    cond = 10.0 ** draw(st.floats(0.0, cmax))
    rng = np.random.default_rng(draw(SEEDS))
    J = build("svd", m, n, rng, {"cond": cond})
    e = draw(st.integers(-6, 6)) if dtype == "float32" else draw(st.integers(-30, 30))
    J = J * 10.0**e
    pref = None
    if name != "IMTLG" and draw(st.booleans()):
        pref = (10.0 ** rng.uniform(-1, 1, size=m)).tolist()
    # many parameters that influence nothing (zero columns): same rows, same singular values, same defining equations
    pad = draw(st.sampled_from([0, 0, 0, 0, 100, 2000, 20000]))
    # the same instance may already have been used (on the zero matrix or on a matrix with zero rows, same row count)
    pre = draw(st.sampled_from([None, None, "zero-matrix", "zero-row"]))
    return {"agg": name, "dtype": dtype, "J": J.tolist(), "pref": pref, "zero": False, "scale_exp": e, "pad": pad, "pre": pre}


def parts(tier):
    n = 6_000 if tier == "quick" else 150_000
    return [Part("generated", "given", n=n, strategy=lambda: widened(_case()))]


def run_case(case) -> Outcome:
    out = Outcome()
    name, dtype = case["agg"], case["dtype"]
    eps = eps_of(dtype)
    tdt = getattr(torch, dtype)
    Jt = case_tensor(case, tdt)
    J = Jt.double().numpy()
    m, n = J.shape
    out.cls(name, dtype, "pref:" + ("custom" if case["pref"] is not None else "default"))
    A = aggs.make({"name": name, "pref": case["pref"]}, dtype)
    if case.get("pad"):
        Jt = torch.cat([Jt, torch.zeros(Jt.shape[0], case["pad"], dtype=tdt)], dim=1)
        J = Jt.double().numpy()
        n = J.shape[1]
        out.cls("wide")
    if case.get("pre"):
        P_ = torch.zeros_like(Jt) if case["pre"] == "zero-matrix" else Jt.clone()
        if case["pre"] == "zero-row":
            P_[0] = 0.0
        out.cls("reused-instance")
        if out.call(f"raises-in-pre-call:{name}", A, P_) is RAISED:
            return out
    x = out.call(f"raises:{name}", A, Jt)
    if x is RAISED:
        return out
    if not out.check(tuple(x.shape) == (n,) and bool(torch.isfinite(x).all()), f"shape-finite:{name}", str(x)):
        return out
    if case["zero"]:
        out.cls("zero-matrix")
        out.check(bool((x == 0).all()), f"zero-matrix-nonzero-output:{name}", f"{x.tolist()}")
        out.nontrivial = True
        return out
    x = x.double().numpy()
    sv = np.linalg.svd(J, compute_uv=False)
    s, smin = sv[0], sv[m - 1]
    cond = s / smin
    tol = K * (m + n - (case.get("pad") or 0)) * eps * cond**2  # zero columns add no rounding error
    norms = np.linalg.norm(J, axis=1)
    u = np.ones(m) if case["pref"] is None else torch.tensor(case["pref"], dtype=tdt).double().numpy()
    G = J @ J.T
    offdiag = G - np.diag(np.diag(G))
    balanced = np.abs(offdiag).max(initial=0.0) <= 1e-6 * s * s and np.ptp(norms) <= 1e-6 * s
    out.nontrivial = m >= 2 and not balanced

    if name == "IMTLG":
        v = np.linalg.solve(G, norms)
        bal = abs(v.sum()) / np.abs(v).sum()
        if bal < 1e-3:
            out.excluded = "imtlg-weights-sum-near-zero"
            return out
        w = A.weighting(Jt).double().numpy()
        out.within(abs(w.sum() - 1.0), K * m * eps * np.abs(w).sum() + tol, "imtlg-weights-sum-1", f"sum {w.sum()!r}")
        p = (J @ x) / norms
        spread = float(np.max(np.abs(p - p.mean())))
        out.within(spread, tol / bal * max(abs(p.mean()), 1e-300) + 1e-300, "imtlg-equal-projections",
                   f"projections onto the row directions {p.tolist()} are not equal")
        return out

    if name == "ConFIG":
        nx = float(np.linalg.norm(x))
        if not out.check(nx > 0, "config-zero-output", "zero vector for a full-row-rank matrix"):
            return out
        cos = (J @ x) / (norms * nx)
        out.check(bool((cos > 0).all()), "config-cosines-positive", f"cosines {cos.tolist()}")
        q = cos / u
        q = q / np.abs(q).max()
        out.within(float(np.max(np.abs(q - q.mean()))), tol * max(1.0, float(u.max() / u.min())) + 1e-300,
                   "config-cosines-proportional", f"cosines {cos.tolist()} not proportional to {u.tolist()}")
        length = float((J @ x).sum() / nx)
        out.within(abs(nx - length), (tol + K * m * eps) * max(nx, float(norms.sum())) + 1e-300, "config-length",
                   f"|A(J)| = {nx!r} but the sum of its projections on the rows is {length!r}")
        return out

    # Aligned-MTL
    R = []
    for i in range(m):
        e = [0.0] * m
        e[i] = 1.0
        ri = out.call("raises:AlignedMTL", aggs.make({"name": "AlignedMTL", "pref": e}, dtype), Jt)
        if ri is RAISED:
            return out
        R.append(ri.double().numpy())
    R = np.array(R)
    RR = R @ R.T
    off = RR - np.diag(np.diag(RR))
    out.within(float(np.abs(off).max(initial=0.0)), tol * smin**2 + 1e-300, "alignedmtl-orthogonal",
               f"Gram matrix of the re-balanced rows {RR.tolist()} (sigma_min^2 = {smin**2!r})")
    lens = np.sqrt(np.diag(RR))
    out.within(float(np.max(np.abs(lens - smin))), tol * smin + 1e-300, "alignedmtl-length-sigma-min",
               f"lengths {lens.tolist()} vs sigma_min {smin!r}")
    wref = u if case["pref"] is not None else np.full(m, 1.0 / m)
    want = wref @ R
    out.within(float(np.linalg.norm(x - want)), (tol + K * m * eps) * smin * float(np.abs(wref).sum()) + 1e-300,
               "alignedmtl-linear-in-pref", f"A_u(J) = {x.tolist()} vs sum u_i r_i = {want.tolist()}")
    out.evals = m + 1
    return out
