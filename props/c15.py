"""C15 - Each building-block transform computes its specified linear map, for all shapes."""

import numpy as np
import torch
from hypothesis import strategies as st

from torchjd.autojac._transform import (
    Aggregate,
    Diagonalize,
    EmptyTensorDict,
    Grad,
    Gradients,
    Init,
    Jac,
    Jacobians,
    Select,
    Stack,
    Transform,
)
from vlib import jdcheck, programs as P
from vlib.probes import PositionCoding, Recording, _same
from vlib.runner import RAISED, Outcome, Part

ID = "C15"
RULE = (
    "Hypothesis-generated cases per transform. grad / jac: random programs with 1-3 output nodes and 1-4 "
    "differentiation inputs chosen among leaves AND intermediate nodes (mutually independent at autograd-node level), "
    "shapes 0-d to 4-d incl. size-1 dims, integer-valued or real cotangents, batch sizes 1..6, chunk sizes "
    "{None,1..batch+2}; oracle = NumPy dual numbers with the intermediate inputs cut: Grad = sum_o cot_o . J_{o,i}; "
    "Jac row r = Grad of row r (bitwise for chunk size 1), equals the NumPy reference, is linear in the cotangents, "
    "zero for unreachable inputs. chain: on trunk/heads programs Jac(features->shared) o Jac(losses->features) equals "
    "the end-to-end Jac(losses->shared). init: ones of each key's shape. diag: one row per scalar in key order, own "
    "entry at own position, zeros elsewhere. stack: per-key stacking, zero rows where a key is absent, row i from "
    "transform i. select: exactly the selected entries. aggregate: the recording aggregator sees the column-wise "
    "concatenation, in key_order, of the row-major matrices and every key receives bitwise its own reshaped slice. "
    "Non-trivial = >= 2 keys of equal numel but different shapes, or a 0-d key next to an n-d key, or an unreachable "
    "input, or batch > chunk. Distinct = distinct case description."
    " A quarter of the Diagonalize / Stack / Select cases carry inf, -inf, nan, -0.0, 3e38 or denormal entries (compared NaN-safe, position by position)."
    " Half of the Aggregate cases pass Jacobians that are column views of ONE matrix laid out in creation order; a quarter of the Grad / Jac cases allow an input that is also an output."
)
ASSUMPTIONS = ["the building blocks are imported from torchjd.autojac._transform (the anchored, private module)"]
LEVEL_TEXT = "Generated-input search against NumPy references of each transform's linear map. No proof."
LEVEL_NOTE = "Trusted: the NumPy dual-number oracle with cuts at intermediate inputs; exact integer-valued arithmetic for layout checks."
TECHNIQUE = "property-based testing (Hypothesis) with per-transform reference-model oracles"
REQUIRED_CLASSES = {"grad": 1, "jac": 1, "chain": 1, "init": 1, "diag": 1, "stack": 1, "aggregate": 1, "select": 1,
                    "intermediate-input": 1, "unreachable-input": 1, "batch>chunk": 1}

KINDS = ["grad", "grad", "jac", "jac", "jac", "chain", "init", "diag", "diag", "stack", "stack", "aggregate", "aggregate", "select"]


def _node_id(ref):
    return (ref[0], ref[1])


def _ancestors(prog, ref):
    """Autograd-node level ancestors of the tensor at `ref` (all results of a multi-output op count as one node)."""
    seen, stack = set(), [tuple(ref)]
    while stack:
        r = stack.pop()
        if r[0] == "l":
            continue
        for a in prog["nodes"][r[1]]["args"]:
            a = tuple(a)
            if _node_id(a) not in seen:
                seen.add(_node_id(a))
                stack.append(a)
    return seen


def _key_shapes(rng, n):
    pool = [[], [1], [2], [3], [1, 1], [2, 1], [1, 2], [2, 2], [3, 2], [2, 3], [1, 2, 1], [2, 1, 2], [2, 2, 2], [1, 1, 1, 1],
            [2, 1, 1, 2], [1, 3, 1, 1], [4], [2, 2, 1]]
    return [pool[int(rng.integers(0, len(pool)))] for _ in range(n)]


@st.composite
def _case(draw, kinds=tuple(KINDS)):
    rng = np.random.default_rng(draw(st.integers(0, 2**32 - 1)))
    kind = kinds[int(rng.integers(0, len(kinds)))]
    dtype = draw(st.sampled_from(["float64", "float32"]))
    real = bool(rng.integers(0, 2))
    case = {"kind": kind, "dtype": dtype, "seed": int(rng.integers(0, 2**31)), "real": real}
    if kind in ("diag", "stack", "select") and rng.integers(0, 4) == 0:
        # the data-moving transforms place values, they do not compute with them: inf / nan / -0.0 / huge entries (an
        # overflowed gradient) must stay at their own position and must not leak into the zeros around them
        case["special"] = True
    if kind in ("grad", "jac"):
        prog = draw(P.programs(max_leaves=4, max_nodes=8, max_outputs=3, max_rank=4, dtypes=(dtype,),
                               min_leaves=draw(st.sampled_from([1, 2, 3]))))
        shapes = P.infer_shapes(prog)
        # differentiation inputs: leaves requiring grad and intermediate nodes, mutually independent, not outputs
        cands = [("l", i) for i, lf in enumerate(prog["leaves"]) if lf["rg"]]
        out_ids = {_node_id(tuple(r)) for r in prog["outputs"]}
        # (a quarter of the cases also allow a tensor that is itself one of the differentiated outputs: its own block is the
        # identity, plus whatever the other outputs contribute through it)
        also_outputs = bool(rng.integers(0, 4) == 0)
        for ref in shapes:
            if ref[0] == "n" and P.requires_grad(prog, ref) and (also_outputs or _node_id(ref) not in out_ids):
                cands.append(ref)
        order = [cands[i] for i in rng.permutation(len(cands))]
        want = int(rng.integers(1, 5))
        chosen, anc = [], {}
        for ref in order:
            a = _ancestors(prog, ref)
            if any(_node_id(ref) in anc[c] or _node_id(c) in a or _node_id(c) == _node_id(ref) for c in chosen):
                continue
            chosen.append(ref)
            anc[ref] = a
            if len(chosen) == want:
                break
        if not chosen:
            chosen = [("l", 0)]
        case.update(prog=prog, inputs=[list(c) for c in chosen], batch=int(rng.integers(1, 7)))
        ks = [None, 1] + list(range(1, case["batch"] + 3))
        case["chunk"] = ks[int(rng.integers(0, len(ks)))]
    elif kind == "chain":
        case.update(prog=draw(P.mtl_programs(allow_around=False, dtypes=(dtype,))))
        m = len(case["prog"]["losses"])
        ks = [None, 1] + list(range(1, m + 2))
        case["chunk"] = ks[int(rng.integers(0, len(ks)))]
    else:
        nk = int(rng.integers(1, 5))
        case["shapes"] = _key_shapes(rng, nk)
        if kind == "stack":
            nt = int(rng.integers(1, 5))
            case["present"] = [[bool(rng.integers(0, 3) > 0) for _ in range(nk)] for _ in range(nt)]
        if kind in ("aggregate",):
            case["rows"] = int(rng.integers(1, 5))
            case["order"] = rng.permutation(nk).tolist()
            case["views"] = bool(rng.integers(0, 2))
        if kind == "select":
            case["picked"] = [bool(rng.integers(0, 2)) for _ in range(nk)]
    return case


def parts(tier):
    n = 8_000 if tier == "quick" else 240_000
    n2 = 6_000 if tier == "quick" else 120_000
    return [Part("differentiation", "given", n=n, strategy=lambda: _case(("grad", "jac", "jac", "chain"))),
            Part("dictionaries", "given", n=n2, strategy=lambda: _case(("init", "diag", "diag", "stack", "stack", "aggregate", "aggregate", "select")))]


class _Const(Transform):
    """Harness-side transform returning a fixed Gradients dictionary (public Transform base class)."""

    def __init__(self, d):
        self.d = d

    def _compute(self, input):
        return Gradients(self.d)

    @property
    def required_keys(self):
        return set()

    @property
    def output_keys(self):
        return set(self.d.keys())


SPECIALS = (float("inf"), float("-inf"), float("nan"), -0.0, 3e38, -1e-45)


def _vals(rng, shape, real, tdt, special=False):
    k = P.numel(shape)
    v = rng.standard_normal(k) if real else rng.integers(-4, 5, size=k).astype(float)
    if special and k:
        for i in rng.choice(k, size=int(rng.integers(1, k + 1)), replace=False):
            v[i] = SPECIALS[int(rng.integers(0, len(SPECIALS)))]
    return torch.tensor(v, dtype=tdt).reshape(shape)


def _shuffled(rng, d: dict) -> dict:
    """Same mapping, random insertion order: a transform must follow ITS key order, not the dictionary's."""
    items = list(d.items())
    return {items[i][0]: items[i][1] for i in rng.permutation(len(items))}


def _nt_shapes(shapes):
    nums = [P.numel(s) for s in shapes]
    eq = any(nums[i] == nums[j] and shapes[i] != shapes[j] for i in range(len(shapes)) for j in range(i))
    zd = any(len(s) == 0 for s in shapes) and any(len(s) > 0 for s in shapes)
    return eq or zd


def _diff_case(case, out):
    prog, dtype = case["prog"], case["dtype"]
    tdt = getattr(torch, dtype)
    rng = np.random.default_rng(case["seed"])
    inputs = [tuple(r) for r in case["inputs"]]
    cuts = [r for r in inputs if r[0] == "n"]
    dual = P.run_dual(prog, cuts=cuts)
    if not jdcheck.scale_ok(dtype, dual.max_abs):
        out.excluded = "values-or-tangents-exceed-1e6"
        return
    if cuts:
        out.cls("intermediate-input")
    if any(tuple(r) in [tuple(o) for o in prog["outputs"]] for r in inputs):
        out.cls("input-is-also-an-output")
    g = P.TorchGraph(prog)
    outs = [g.get(r) for r in prog["outputs"]]
    ins = [g.get(r) for r in inputs]

    def jac_ref(o_ref, i_ref):
        if i_ref[0] == "l":
            return dual.jac(o_ref, i_ref[1], prog)
        return dual.jac_cut(o_ref, i_ref)

    tol = jdcheck.deriv_tol(dtype, dual.max_abs)
    B = case["batch"] if case["kind"] == "jac" else 1
    cots = [torch.stack([_vals(rng, list(o.shape), case["real"], tdt) for _ in range(B)]) for o in outs]
    cmax = max(1.0, max(float(c.abs().max()) for c in cots)) * sum(o.numel() for o in outs)
    unreachable = False
    # reference rows: for every batch row r and input i: sum_o cot_o[r] . J_{o,i}
    ref = {}
    for i_ref, x in zip(inputs, ins):
        rows = []
        for r in range(B):
            acc = np.zeros(x.numel())
            for o_ref, c in zip(prog["outputs"], cots):
                acc = acc + c[r].double().reshape(-1).numpy() @ jac_ref(o_ref, i_ref)
            rows.append(acc)
        ref[i_ref] = np.array(rows)
        if not np.any([np.any(jac_ref(o, i_ref)) for o in prog["outputs"]]):
            unreachable = True
    # structurally unreachable inputs (no differentiable path from any output): exact zeros are required for those only;
    # a reachable input whose derivative happens to vanish may carry rounding noise
    out_anc = set()
    for o in prog["outputs"]:
        out_anc |= _ancestors(prog, tuple(o)) | {_node_id(tuple(o))}
    no_path = set()
    for i_ref in inputs:
        if i_ref[0] == "l":
            if i_ref[1] not in P.leaf_deps(prog, prog["outputs"]):
                no_path.add(i_ref)
        elif _node_id(i_ref) not in out_anc:
            no_path.add(i_ref)
    if unreachable:
        out.cls("unreachable-input")
    if case["kind"] == "grad":
        res = out.call("raises:Grad", Grad(outs, ins, retain_graph=True), Gradients(_shuffled(rng, {o: c[0] for o, c in zip(outs, cots)})))
        if res is RAISED:
            return
        out.check(set(res.keys()) == set(ins) and type(res) is Gradients, "grad-keys-type", f"{type(res).__name__}")
        for i_ref, x in zip(inputs, ins):
            got = res[x]
            if not out.check(tuple(got.shape) == tuple(x.shape), "grad-shape", f"{tuple(got.shape)} vs {tuple(x.shape)}"):
                continue
            out.within(float(np.abs(got.double().reshape(-1).numpy() - ref[i_ref][0]).max(initial=0.0)), tol * cmax,
                       "grad-value", f"input {i_ref}: {got.tolist()} vs {ref[i_ref][0].tolist()}")
        out.nontrivial = unreachable or bool(cuts) or _nt_shapes([list(x.shape) for x in ins])
        return
    # jac
    k = case["chunk"]
    if k is not None and k < B:
        out.cls("batch>chunk")
    J = out.call("raises:Jac", Jac(outs, ins, k, retain_graph=True), Jacobians(_shuffled(rng, {o: c for o, c in zip(outs, cots)})))
    if J is RAISED:
        return
    out.check(set(J.keys()) == set(ins) and type(J) is Jacobians, "jac-keys-type", f"{type(J).__name__}")
    for i_ref, x in zip(inputs, ins):
        got = J[x]
        if not out.check(tuple(got.shape) == (B,) + tuple(x.shape), "jac-shape", f"{tuple(got.shape)} vs {(B,) + tuple(x.shape)}"):
            return
        out.within(float(np.abs(got.double().reshape(B, -1).numpy() - ref[i_ref]).max(initial=0.0)), tol * cmax, "jac-value",
                   f"input {i_ref}: {got.tolist()} vs reference rows {ref[i_ref].tolist()}")
        if i_ref in no_path:
            out.check(bool((got == 0).all()), "jac-unreachable-not-zero", f"input {i_ref}: {got.tolist()}")
    # Jac vs stacking Grad row by row (bitwise when chunk size is 1)
    for r in range(B):
        res = Grad(outs, ins, retain_graph=True)(Gradients({o: c[r] for o, c in zip(outs, cots)}))
        for x in ins:
            if k == 1:
                out.check(torch.equal(J[x][r], res[x]), "jac-row-differs-from-grad", f"row {r} (chunk size 1 must be bitwise Grad)")
            else:
                out.within(float((J[x][r].double() - res[x].double()).abs().max()) if x.numel() else 0.0, tol * cmax,
                           "jac-row-differs-from-grad", f"row {r}")
    # linearity in the cotangents
    a, b = 2.0, -0.5
    cots2 = [torch.stack([_vals(rng, list(o.shape), case["real"], tdt) for _ in range(B)]) for o in outs]
    J2 = out.call("raises:Jac", Jac(outs, ins, k, retain_graph=True), Jacobians({o: c for o, c in zip(outs, cots2)}))
    J3 = out.call("raises:Jac", Jac(outs, ins, k, retain_graph=True), Jacobians({o: a * c + b * c2 for o, c, c2 in zip(outs, cots, cots2)}))
    if J2 is RAISED or J3 is RAISED:
        return
    for x in ins:
        if not out.check(tuple(J2[x].shape) == (B,) + tuple(x.shape) and tuple(J3[x].shape) == (B,) + tuple(x.shape), "jac-shape",
                         f"{tuple(J2[x].shape)}, {tuple(J3[x].shape)} vs {(B,) + tuple(x.shape)}"):
            return
        err = float((J3[x].double() - a * J[x].double() - b * J2[x].double()).abs().max()) if x.numel() else 0.0
        out.within(err, tol * cmax * 8, "jac-not-linear-in-cotangents", f"input of shape {tuple(x.shape)}")
    out.nontrivial = unreachable or bool(cuts) or (k is not None and k < B) or _nt_shapes([list(x.shape) for x in ins])


def _chain_case(case, out):
    prog, dtype = case["prog"], case["dtype"]
    dual = P.run_dual(prog)
    if not jdcheck.scale_ok(dtype, dual.max_abs):
        out.excluded = "values-or-tangents-exceed-1e6"
        return
    g = P.TorchGraph(prog)
    losses = [g.get(l) for l in prog["losses"]]
    feats = [g.get(f) for f in prog["features"]]
    shared = [g.leaves[p] for p in prog["shared_leaves"]]
    m = len(losses)
    eye = torch.eye(m, dtype=losses[0].dtype)
    start = Jacobians({l: eye[:, i] for i, l in enumerate(losses)})
    k = case["chunk"]
    try:
        first = Jac(losses, feats, k, retain_graph=True)
        second = Jac(feats, shared, k, retain_graph=True)
        chained = (second << first)(start)
        direct = Jac(losses, shared, k, retain_graph=True)(start)
    except Exception as e:  # noqa: BLE001
        out.check(False, f"raises:chain:{type(e).__name__}", str(e)[:250])
        return
    tol = jdcheck.deriv_tol(dtype, dual.max_abs) * max(1.0, dual.max_abs) * 8
    for li, x in zip(prog["shared_leaves"], shared):
        ok_shape = tuple(chained[x].shape) == (m,) + tuple(x.shape) and tuple(direct[x].shape) == (m,) + tuple(x.shape)
        if not out.check(ok_shape, "chain-shape", f"shared leaf {li}: chained {tuple(chained[x].shape)}, end-to-end "
                         f"{tuple(direct[x].shape)}, expected {(m,) + tuple(x.shape)}"):
            continue
        err = float((chained[x].double() - direct[x].double()).abs().max()) if x.numel() else 0.0
        out.within(err, tol, "chain-rule", f"shared leaf {li}: chained {chained[x].tolist()} vs end-to-end {direct[x].tolist()}")
        want = np.concatenate([dual.jac(l, li, prog) for l in prog["losses"]], axis=0)
        out.within(float(np.abs(direct[x].double().reshape(m, -1).numpy() - want).max(initial=0.0)), tol, "chain-end-to-end-value",
                   f"shared leaf {li}")
    out.nontrivial = m >= 2 and len(feats) >= 1


def _dict_case(case, out):
    kind, dtype = case["kind"], case["dtype"]
    tdt = getattr(torch, dtype)
    rng = np.random.default_rng(case["seed"])
    shapes = case["shapes"]
    keys = [torch.zeros(s, dtype=tdt) for s in shapes]
    for i, kk in enumerate(keys):
        if kk.ndim >= 2 and kk.numel() > max(kk.shape) and rng.integers(0, 3) == 0:
            rev = list(range(kk.ndim))[::-1]
            keys[i] = kk.permute(rev).contiguous().permute(rev)  # a non-contiguous (column-major) key
    nt = _nt_shapes(shapes)
    sp = bool(case.get("special"))
    if sp:
        out.cls("special-values(inf/nan/-0.0)")
    if kind == "init":
        res = Init(keys)(EmptyTensorDict())
        ok = set(res.keys()) == set(keys) and type(res) is Gradients
        out.check(ok, "init-keys-type", "")
        for kk in keys:
            out.check(tuple(res[kk].shape) == tuple(kk.shape) and bool((res[kk] == 1).all()) and res[kk].dtype == kk.dtype,
                      "init-not-ones", f"{res[kk].tolist()} for key of shape {tuple(kk.shape)}")
        out.nontrivial = nt
        return
    if kind == "diag":
        vals = _shuffled(rng, {kk: _vals(rng, s, case["real"], tdt, sp) for kk, s in zip(keys, shapes)})
        res = Diagonalize(keys)(Gradients(vals))
        n_tot = sum(P.numel(s) for s in shapes)
        out.check(set(res.keys()) == set(keys) and type(res) is Jacobians, "diag-keys-type", f"{type(res).__name__}")
        off = 0
        for ki, (kk, s) in enumerate(zip(keys, shapes)):
            k_ = P.numel(s)
            want = np.zeros((n_tot, k_))
            want[off : off + k_, :] = np.diag(vals[kk].double().reshape(-1).numpy())
            got = res[kk]
            if out.check(tuple(got.shape) == (n_tot,) + tuple(s), "diag-shape", f"{tuple(got.shape)}"):
                out.check(np.array_equal(got.double().reshape(n_tot, -1).numpy(), want, equal_nan=True), "diag-layout",
                          f"key #{ki} of shape {s}: {got.tolist()} vs {want.tolist()}")
            off += k_
        out.nontrivial = nt
        return
    if kind == "stack":
        present = case["present"]
        dicts = []
        for row in present:
            dicts.append(_shuffled(rng, {kk: _vals(rng, s, case["real"], tdt, sp) for kk, s, p in zip(keys, shapes, row) if p}))
        res = Stack([_Const(d) for d in dicts])(EmptyTensorDict())
        union = {kk for d in dicts for kk in d}
        out.check(set(res.keys()) == union and type(res) is Jacobians, "stack-keys-type", f"{len(res)} keys, {type(res).__name__}")
        for kk in union:
            got = res[kk]
            if not out.check(tuple(got.shape) == (len(dicts),) + tuple(kk.shape), "stack-shape", f"{tuple(got.shape)}"):
                continue
            for i, d in enumerate(dicts):
                want = d[kk] if kk in d else torch.zeros_like(kk)
                out.check(_same(got[i], want), "stack-row", f"row {i} of key of shape {tuple(kk.shape)}: {got[i].tolist()} vs {want.tolist()}")
        out.nontrivial = len(dicts) >= 2 and any(not all(r) for r in present)
        return
    if kind == "select":
        vals = _shuffled(rng, {kk: _vals(rng, s, case["real"], tdt, sp) for kk, s in zip(keys, shapes)})
        picked = [kk for kk, p in zip(keys, case["picked"]) if p]
        res = Select(picked, keys)(Gradients(vals))
        out.check(set(res.keys()) == set(picked) and type(res) is Gradients, "select-keys-type", f"{len(res)}")
        for kk in picked:
            out.check(_same(res[kk], vals[kk]), "select-value", "")
        out.nontrivial = 0 < len(picked) < len(keys)
        return
    # aggregate
    rows = case["rows"]
    order = [keys[i] for i in case["order"]]
    jacs = _shuffled(rng, {kk: _vals(rng, [rows] + s, case["real"], tdt) for kk, s in zip(keys, shapes)})
    if case.get("views"):
        # the per-key Jacobians are column views of ONE 2-d tensor (as Jac produces them), laid out in the order in which
        # the keys were created - which is not the key order given to Aggregate
        base = torch.cat([jacs[kk].reshape(rows, -1) for kk in keys], dim=1).clone()
        off, viewed = 0, {}
        for kk, s in zip(keys, shapes):
            k_ = kk.numel()
            col = base[:, off : off + k_]
            viewed[kk] = col.unflatten(1, s) if len(s) else col[:, 0]
            off += k_
        jacs = _shuffled(rng, viewed)
        out.cls("aggregate:jacobians-are-views-of-one-matrix")
    inner = PositionCoding() if rng.integers(0, 2) else jdcheck.aggs.make({"name": "Constant", "weights": (rng.integers(-3, 4, size=rows) + 0.5).tolist()}, dtype)
    rec = Recording(inner)
    res = out.call("raises:Aggregate", Aggregate(rec, order), Jacobians(jacs))
    if res is RAISED:
        return
    out.check(set(res.keys()) == set(keys) and type(res) is Gradients, "aggregate-keys-type", f"{type(res).__name__}")
    want = torch.cat([jacs[kk].reshape(rows, -1) for kk in order], dim=1)
    if not out.check(len(rec.calls) == 1, "aggregate-aggregator-call-count",
                     f"the aggregator was called {len(rec.calls)} times for a {rows}-row Jacobian"):
        return
    M, r = rec.calls[0]
    out.check(M.shape == want.shape and torch.equal(M, want), "aggregate-matrix-layout",
              f"aggregator saw {M.tolist()}, expected the key_order concatenation {want.tolist()}")
    off = 0
    for kk in order:
        k_ = kk.numel()
        sl = r[off : off + k_].view(kk.shape)
        out.check(tuple(res[kk].shape) == tuple(kk.shape) and torch.equal(res[kk], sl), "aggregate-slice",
                  f"key of shape {tuple(kk.shape)} got {res[kk].tolist()}, its slice is {sl.tolist()}")
        off += k_
    out.nontrivial = nt and len(keys) >= 2


def run_case(case) -> Outcome:
    out = Outcome()
    out.cls(case["kind"], case["dtype"])
    if case["kind"] in ("grad", "jac"):
        _diff_case(case, out)
    elif case["kind"] == "chain":
        _chain_case(case, out)
    else:
        _dict_case(case, out)
    return out
