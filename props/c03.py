"""C03 - UPGrad / DualProj return the exact (regularised) dual-cone projection."""

import numpy as np
import torch
from hypothesis import strategies as st

from vlib import aggs, refs
from vlib.matrices import FAMILIES, SEEDS, eps_of, extra_cols_strategy, matrices, smax, widen
from vlib.runner import RAISED, Outcome, Part

ID = "C03"
RULE = (
    "Hypothesis-generated (J, u, norm_eps, reg_eps, dtype): J from ten matrix families (grid, Gaussian, prescribed "
    "SVD, low rank, near-antiparallel pair, duplicated rows, zero rows, stationary, entrywise non-negative, row "
    "norms over 12 decades), 1<=m<=7, 1<=n<=10 (one case in three widened by 90 .. 140000 Gaussian or zero columns), rescaled to "
    "s = 10^[0.05,9] x norm_eps (70%) or {1e-3,0.5,0.9} x norm_eps (30%), one case in ten at an extreme scale (s up to "
    "1e30, or s in [1e-34,1e-22] with norm_eps = 1e-36); "
    "J optionally delivered in a reused tensor object that held another matrix at the previous call of the same instance; "
    "u in {None, uniform, random over 3 decades with optional zeros}; norm_eps in 10^[-8,-1], reg_eps in "
    "10^[-10,-1]. Oracle: exhaustive active-set enumeration (2^m KKT systems, NumPy float64) of "
    "min v^T(JJ^T/s^2 + reg_eps I)v s.t. v >= u; compares A(J) with J^T w* and A.weighting(J) with w*. "
    "Out-of-domain (excluded, counted): reg_eps + lambda_min/s^2 < 50 m eps(dtype) (documented purpose of reg_eps), "
    "s within 5% of norm_eps. Non-trivial = w* has both an active and an inactive constraint, or s < norm_eps, or a "
    "non-default u. Distinct = distinct (J, u, eps parameters, dtype, aggregator)."
    " Preference kinds: none, 1/m, random, with zeros, integer tensor, all entries equal to c in {1, 2, 0.25, 10, 0}."
)
ASSUMPTIONS = [
    "reference QP solved by active-set enumeration in float64; tolerance K m (eps_dtype + eps64) / sqrt(reg_eff) on "
    "the output and / reg_eff on the weights (perturbation bound of the strongly convex QP), K = 20, floor 1e-8",
    "pref_vector has the dtype of the matrix (implicit precondition of weights @ matrix)",
]
LEVEL_TEXT = (
    "Generated-input search (20k cases quick / 500k thorough) against an exhaustive active-set reference solver with "
    "scale-relative tolerances; float64 decides, float32 runs the same oracle with its own eps. No proof."
)
LEVEL_NOTE = "Trusted: NumPy linear solves, the 2^m KKT enumeration (unique minimiser for H > 0), calibrated constant K."
TECHNIQUE = "property-based testing (Hypothesis) with an exhaustive reference-solver oracle"
REQUIRED_CLASSES = {"UPGrad": 1, "DualProj": 1, "below-norm-eps": 1, "mixed-active-set": 1, "pref:custom": 1}

K = 20.0


@st.composite
def _case(draw):
    mc = draw(matrices(m_max=7, n_max=10, families=FAMILIES, max_scale_exp=0))
    m = len(mc["J"])
    agg = draw(st.sampled_from(["UPGrad", "DualProj"]))
    kind = draw(st.sampled_from(["none", "uniform", "random", "random", "zeros", "constant"]))
    pref = None
    if kind == "uniform":
        pref = [1.0 / m] * m
    elif kind == "constant":
        # all entries equal but NOT 1/m (the result scales with the preference), including the all-zero preference
        pref = [draw(st.sampled_from([1.0, 2.0, 0.25, 10.0, 0.0]))] * m
    elif kind in ("random", "zeros"):
        rng = np.random.default_rng(draw(SEEDS))
        v = 10.0 ** rng.uniform(-2, 1, size=m)
        if kind == "zeros" and m >= 2:
            v[rng.choice(m, size=int(rng.integers(1, m)), replace=False)] = 0.0
        pref = v.tolist()
    pref_int = False
    if pref is not None and draw(st.sampled_from([True, False, False, False, False])):
        pref = [float(round(x)) for x in np.random.default_rng(draw(SEEDS)).uniform(0, 3, size=m)]
        if not any(pref):
            pref[0] = 1.0
        pref_int = True  # passed as an integer tensor
    norm_eps = 10.0 ** draw(st.integers(-8, -1))
    reg_eps = 10.0 ** draw(st.integers(-10, -1))
    extra = draw(extra_cols_strategy())
    xseed = draw(SEEDS)
    # s relative to norm_eps: mostly above (10^[0.05, 9] x norm_eps), sometimes below (1e-3, 0.5, 0.9 x norm_eps)
    rel = draw(st.sampled_from([None, None, None, None, None, None, None, 1e-3, 0.5, 0.9]))
    if rel is None:
        rel = 10.0 ** draw(st.floats(0.05, 9.0))
    extreme = draw(st.sampled_from([None] * 9 + ["huge", "tiny"]))
    if extreme == "huge":
        rel = 10.0 ** draw(st.floats(19.0, 30.0)) / norm_eps  # s up to 1e30: squares of singular values overflow float32
    elif extreme == "tiny":
        norm_eps = 1e-36
        rel = 10.0 ** draw(st.floats(2.0, 14.0))  # s between 1e-34 and 1e-22: squares underflow float32
    J = np.array(mc["J"])
    s = smax(widen(J, extra, xseed))
    if s > 0:
        J = J * (rel * norm_eps / s)
    return {"agg": agg, "J": J.tolist(), "dtype": mc["dtype"], "family": mc["family"], "pref": pref,
            "norm_eps": norm_eps, "reg_eps": reg_eps, "extra_cols": extra, "xseed": xseed,
            # a quarter of the cases: the matrix arrives in a reused buffer that held another matrix at the previous call
            "reused_buffer": draw(st.sampled_from([True, False, False, False])), "pref_int": pref_int}


def parts(tier):
    n = 20_000 if tier == "quick" else 500_000
    return [Part("generated", "given", n=n, strategy=_case)]


def reference_weights(J, u, agg, reg_eps, s):
    m = J.shape[0]
    H = J @ J.T / s**2 + reg_eps * np.eye(m)
    if agg == "DualProj":
        return refs.qp_active_set(H, u)
    w = np.zeros(m)
    acts, viol = [], 0.0
    for i in range(m):
        e = np.zeros(m)
        e[i] = u[i]
        wi, act, vi = refs.qp_active_set(H, e)
        w += wi
        viol += vi
        acts.append(act)
    return w, np.concatenate(acts), viol


def run_case(case) -> Outcome:
    out = Outcome()
    dtype, agg = case["dtype"], case["agg"]
    eps = eps_of(dtype)
    Jt = torch.tensor(widen(np.array(case["J"]), case.get("extra_cols"), case.get("xseed", 0)), dtype=getattr(torch, dtype))
    J = Jt.double().numpy()
    m, n = J.shape
    s = smax(J)
    if case.get("extra_cols"):
        out.cls("wide")
    if not np.isfinite(J).all() or not bool(torch.isfinite(Jt).all()):
        out.excluded = "overflow"
        return out
    if s > 1e12 or (0 < s < 1e-12):
        out.cls("extreme-scale")
    norm_eps, reg_eps = case["norm_eps"], case["reg_eps"]
    if case["pref"] is None:
        u = np.full(m, 1.0 / m)
    else:
        u = torch.tensor(case["pref"], dtype=Jt.dtype).double().numpy()
    A = aggs.make({"name": agg, "pref": case["pref"], "norm_eps": norm_eps, "reg_eps": reg_eps, "pref_int": case.get("pref_int")}, dtype)
    if case.get("pref_int"):
        out.cls("pref:integer-tensor")
    out.cls(agg, dtype, "family:" + case["family"], "pref:" + ("default" if case["pref"] is None else "custom"))
    if abs(s - norm_eps) <= 0.05 * norm_eps:
        out.excluded = "s-within-5%-of-norm_eps"
        return out
    below = s < norm_eps
    if below:
        lam_min = 0.0
        reg_eff = reg_eps
        w_ref = u.copy()
        act = np.ones(m, dtype=bool)
        viol = 0.0
    else:
        lam_min = max(0.0, float(np.linalg.eigvalsh(J @ J.T)[0]) / s**2) if m else 0.0
        reg_eff = reg_eps + lam_min
    if reg_eff < 50 * m * eps:
        out.excluded = "reg_eps-below-gramian-noise(documented-domain)"
        return out
    if not below:
        try:
            w_ref, act, viol = reference_weights(J, u, agg, reg_eps, s)
        except ArithmeticError:
            out.excluded = "reference-inconclusive"
            return out
    if case.get("reused_buffer"):
        out.cls("reused-buffer")
        buf = torch.tensor(np.random.default_rng(case.get("xseed", 0)).standard_normal(tuple(Jt.shape)) * max(s, 1e-300),
                           dtype=Jt.dtype)
        try:
            A(buf)
        except Exception:  # noqa: BLE001 - the warm-up matrix is arbitrary; only the measured call matters
            pass
        buf.copy_(Jt)
        Jt = buf
    r = out.call("solver-failure", A, Jt)
    w = out.call("solver-failure-weighting", A.weighting, Jt)
    if r is RAISED or w is RAISED:
        return out
    out.check(tuple(r.shape) == (n,) and r.dtype == Jt.dtype and bool(torch.isfinite(r).all()), "shape-dtype-finite",
              f"{tuple(r.shape)} {r.dtype}")
    r = r.double().numpy()
    w = w.double().numpy()
    want = J.T @ w_ref
    wn = float(np.linalg.norm(w_ref))
    e2 = eps + eps_of("float64")
    tol_out = s * wn * (K * m * e2 / np.sqrt(reg_eff) + 1e-8) + s * 10 * m * viol + 1e-300
    tol_w = wn * (K * m * e2 / reg_eff + 1e-8) + 10 * m * viol + 1e-300
    if below:
        tol_out = 8 * eps * s * wn * m**0.5 + 1e-300
        tol_w = 4 * eps * wn + 1e-300
        out.cls("below-norm-eps")
    err = float(np.linalg.norm(r - want))
    out.within(err, tol_out, f"projection-value:{agg}",
              f"|A(J) - J^T w*| = {err:.3e} > tol {tol_out:.3e} (s={s:.3e}, reg_eps={reg_eps}, norm_eps={norm_eps}, "
              f"w*={w_ref.tolist()}, got weights {w.tolist()})")
    errw = float(np.linalg.norm(w - w_ref))
    out.within(errw, tol_w, f"projection-weights:{agg}",
              f"|w - w*| = {errw:.3e} > tol {tol_w:.3e} (w*={w_ref.tolist()}, w={w.tolist()})")
    G = J @ J.T
    if (G >= 0).all():
        out.cls("non-conflicting")
        e = float(np.linalg.norm(r - J.T @ u))
        out.within(e, tol_out, f"nonconflict-equals-JTu:{agg}", f"|A(J) - J^T u| = {e:.3e} > {tol_out:.3e}")
    mixed = bool(act.any() and (~act).any())
    if mixed:
        out.cls("mixed-active-set")
    out.nontrivial = mixed or below or case["pref"] is not None
    return out
