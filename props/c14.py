"""C14 - Transform pipelines are key-typed: ill-formed ones cannot be built or run."""

import itertools

import numpy as np
import torch
from hypothesis import strategies as st

from torchjd.autojac._transform import (
    Accumulate,
    Composition,
    Conjunction,
    Diagonalize,
    EmptyTensorDict,
    Gradients,
    GradientVectors,
    Init,
    JacobianMatrices,
    Jacobians,
    Select,
    Stack,
    TensorDict,
)
from vlib.runner import Outcome, Part

ID = "C14"
RULE = (
    "Universe of 3 leaf keys (shapes (), (2,), (2,)). Terms are JSON trees over Init(S), Select(K,R) (all 64 (K,R) "
    "pairs incl. the 37 ill-formed ones), Diagonalize(ordering of S), Accumulate(S), Composition, Conjunction (arity "
    "0..3), Stack (arity 1..3). Enumerated EXHAUSTIVELY: all terms of depth <= 2 (atoms; atom<<atom; Conjunction / "
    "Stack of up to 3 atoms; ~4.2e5 terms) and depth 3 modulo interface equivalence (one representative per distinct "
    "(required keys, output keys, value type in, value type out) class of depth-<=2 terms, combined in every "
    "composition and in every list of arity <= 2). Generated (Hypothesis): raw depth-3/4 terms, and triples for the "
    "algebraic laws. Oracle = a reference type checker (props/c14.py:model): constructor accepts iff the model "
    "accepts (ValueError otherwise); required_keys / output_keys equal the model's; application to a dictionary with "
    "each of the other key sets raises ValueError; a term the model types is applied to integer-valued inputs and "
    "yields exactly the declared keys and the model's dictionary type (least common ancestor); every dictionary returned by "
    "any successful application must itself satisfy its type's shape rules (independent reference predicate); (a<<b)<<c vs "
    "a<<(b<<c), a|b vs b|a, (a|b)|c vs a|(b|c) vs Conjunction([a,b,c]) agree in acceptance, interface, result type, "
    "result values (bitwise) and .grad side effects. Dictionary types: for each of the five types every 1- and "
    "2-entry dictionary over a universe of 6 key shapes x 20 value shapes is accepted iff the reference predicate "
    "says so; item assignment, deletion, update, pop, popitem, setdefault and clear raise TypeError and leave the "
    "dictionary unchanged. Non-trivial = a term of depth >= 2 that is well-formed and applied, or ill-formed exactly "
    "at its root; for dictionaries a shape mismatch in exactly one entry. Distinct = distinct term / dictionary."
)
ASSUMPTIONS = [
    "Diagonalize(()) applied to the empty dictionary raises RuntimeError inside torch.cat; construction succeeds and the "
    "statement only constrains successful applications, so that application is not required to succeed",
    "`TensorDict |= ...` mutates the dictionary; the statement does not list it, so it is recorded as an observation only",
]
LEVEL_TEXT = (
    "Exhaustive enumeration of all transform terms up to depth 2 and depth 3 modulo interface over a 3-key universe, "
    "plus generated deeper terms, against a reference type checker; exhaustive small-shape enumeration for the five "
    "dictionary types. No proof beyond those bounds."
)
LEVEL_NOTE = "Trusted: the ~60-line reference type checker written from the statement; exact integer-valued tensor arithmetic."
TECHNIQUE = "exhaustive bounded enumeration + property-based testing (Hypothesis recursive terms) against a reference type-checker model"
REQUIRED_CLASSES = {"accepted": 1, "rejected-at-root": 1, "applied": 1, "law:assoc-composition": 1, "law:conjunction": 1,
                    "dict": 1, "dict:rejected": 1, "depth3": 1}

KEY_SHAPES = [(), (2,), (2,)]
ALL = (0, 1, 2)
SUBSETS = [tuple(c) for r in range(4) for c in itertools.combinations(ALL, r)]
T_EMPTY, T_GRAD, T_JAC, T_ANY = "Empty", "Gradients", "Jacobians", "TensorDict"
TYPES = {T_EMPTY: EmptyTensorDict, T_GRAD: Gradients, T_JAC: Jacobians, T_ANY: TensorDict}


# ------------------------------------------------------------------------------------------------
# reference type checker
# ------------------------------------------------------------------------------------------------


def lca(a, b):
    if a == b:
        return a
    if a == T_EMPTY:
        return b
    if b == T_EMPTY:
        return a
    return T_ANY


def numel_of(keys):
    return sum(int(np.prod(KEY_SHAPES[k])) if KEY_SHAPES[k] else 1 for k in keys)


def model(term):
    """Returns None if the term is ill-formed (constructor must raise ValueError), else a dict with req, out
    (frozensets) and typ: value type in -> value type out, or None when the application is ill-typed at the value
    level. A value type is (name, rows): rows = number of Jacobian rows (None = no constraint, e.g. no entry)."""
    op = term[0]
    if op == "init":
        return {"req": frozenset(), "out": frozenset(term[1]), "typ": lambda t: (T_GRAD, None)}
    if op == "select":
        K, R = frozenset(term[1]), frozenset(term[2])
        if not K <= R:
            return None
        return {"req": R, "out": K, "typ": lambda t, K=K: (t[0], t[1] if K else None)}
    if op == "diag":
        if len(set(term[1])) != len(term[1]):
            return None
        S = frozenset(term[1])
        return {"req": S, "out": S, "typ": lambda t, S=S: (T_JAC, numel_of(S)) if (t[0] == T_GRAD and S) else None}
    if op == "acc":
        S = frozenset(term[1])
        return {"req": S, "out": frozenset(),
                "typ": lambda t, S=S: (T_EMPTY, None) if (t[0] == T_GRAD or (t[0] == T_EMPTY and not S)) else None}
    if op == "comp":
        o, i = model(term[1]), model(term[2])
        if o is None or i is None or o["req"] != i["out"]:
            return None

        def typ(t, o=o, i=i):
            mid = i["typ"](t)
            return None if mid is None else o["typ"](mid)

        return {"req": i["req"], "out": o["out"], "typ": typ}
    if op in ("conj", "stack"):
        ms = [model(t) for t in term[1]]
        if any(m is None for m in ms):
            return None
        req = frozenset().union(*[m["req"] for m in ms]) if ms else frozenset()
        if any(m["req"] != req for m in ms):
            return None
        outs = [k for m in ms for k in m["out"]]
        if op == "conj" and len(outs) != len(set(outs)):
            return None

        def typ(t, ms=ms, op=op, outs=outs):
            ts = [m["typ"](t) for m in ms]
            if any(x is None for x in ts):
                return None
            if op == "stack":
                if not all(x[0] in (T_GRAD, T_EMPTY) for x in ts):
                    return None
                return (T_JAC, len(ms) if outs else None)
            name, rows = T_EMPTY, None
            for x, m in zip(ts, ms):
                name = lca(name, x[0])
                if x[0] == T_JAC and x[1] is not None and m["out"]:
                    if rows is not None and rows != x[1]:
                        rows = "mixed"
                    elif rows is None:
                        rows = x[1]
            if rows == "mixed":
                return None if name == T_JAC else (name, None)
            return (name, rows if name == T_JAC else None)

        return {"req": req, "out": frozenset(outs), "typ": typ}
    raise ValueError(op)


def _count(term, op):
    if term[0] in ("init", "select", "diag", "acc"):
        return int(term[0] == op)
    if term[0] == "comp":
        return _count(term[1], op) + _count(term[2], op)
    return sum(_count(t, op) for t in term[1])


def depth(term):
    if term[0] in ("init", "select", "diag", "acc"):
        return 1
    if term[0] == "comp":
        return 1 + max(depth(term[1]), depth(term[2]))
    return 1 + max([depth(t) for t in term[1]], default=0)


# ------------------------------------------------------------------------------------------------
# building real transforms
# ------------------------------------------------------------------------------------------------


class IllTyped(Exception):
    """A transform returned a dictionary whose values contradict its own type."""


def fresh_keys():
    return [torch.zeros(s, dtype=torch.float64, requires_grad=True) for s in KEY_SHAPES]


def build(term, keys):
    op = term[0]
    if op == "init":
        return Init([keys[i] for i in term[1]])
    if op == "select":
        return Select([keys[i] for i in term[1]], [keys[i] for i in term[2]])
    if op == "diag":
        return Diagonalize([keys[i] for i in term[1]])
    if op == "acc":
        return Accumulate([keys[i] for i in term[1]])
    if op == "comp":
        return Composition(build(term[1], keys), build(term[2], keys))
    if op == "conj":
        return Conjunction([build(t, keys) for t in term[1]])
    return Stack([build(t, keys) for t in term[1]])


def try_build(term, keys):
    """(transform | None, exception | None): sub-terms that are ill-formed make the whole construction raise."""
    try:
        return build(term, keys), None
    except Exception as e:  # noqa: BLE001
        return None, e


def make_input(keys, idxs, typ, salt=0):
    if typ == T_EMPTY or not idxs:
        return EmptyTensorDict()
    d = {}
    for i in sorted(idxs):
        base = torch.arange(1, keys[i].numel() + 1, dtype=torch.float64).reshape(keys[i].shape) + 10 * i + salt
        d[keys[i]] = base if typ == T_GRAD else torch.stack([base, -base, 2 * base])
    return Gradients(d) if typ == T_GRAD else Jacobians(d)


def type_invariant_violation(res):
    """Reference predicate (independent of the library's own checks): does this dictionary satisfy its type?"""
    items = list(res.items())
    if type(res) is EmptyTensorDict:
        return "non-empty EmptyTensorDict" if items else None
    if type(res) is Gradients:
        bad = [(tuple(k.shape), tuple(v.shape)) for k, v in items if tuple(v.shape) != tuple(k.shape)]
        return f"Gradients with (key shape, value shape) {bad}" if bad else None
    if type(res) is Jacobians:
        firsts = {tuple(v.shape)[:1] for _, v in items}
        bad = [(tuple(k.shape), tuple(v.shape)) for k, v in items if v.ndim < 1 or tuple(v.shape)[1:] != tuple(k.shape)]
        if bad:
            return f"Jacobians with (key shape, value shape) {bad}"
        return f"Jacobians with different first dimensions {sorted(firsts)}" if len(firsts) > 1 else None
    return None


def apply_and_observe(tr, keys, m, in_type):
    """Applies to a well-keyed input; returns (type name, {key index: value tensor}, {key index: grad}) or raises."""
    for k in keys:
        k.grad = None
    res = tr(make_input(keys, m["req"], in_type))
    bad = type_invariant_violation(res)
    if bad is not None:
        raise IllTyped(bad)
    tname = next((n for n, c in TYPES.items() if type(res) is c), type(res).__name__)
    idx = {id(k): i for i, k in enumerate(keys)}
    vals = {idx[id(k)]: v for k, v in res.items()}
    grads = {i: (None if k.grad is None else k.grad.clone()) for i, k in enumerate(keys)}
    return tname, vals, grads


# ------------------------------------------------------------------------------------------------
# enumeration
# ------------------------------------------------------------------------------------------------


def atoms(valid_only=False):
    out = [["init", list(S)] for S in SUBSETS]
    for K in SUBSETS:
        for R in SUBSETS:
            if valid_only and not set(K) <= set(R):
                continue
            out.append(["select", list(K), list(R)])
    for S in SUBSETS:
        for p in itertools.permutations(S):
            out.append(["diag", list(p)])
    out += [["acc", list(S)] for S in SUBSETS]
    return out


def depth2_terms():
    A = atoms(valid_only=True)
    terms = list(atoms())
    terms.append(["diag", [1, 1]])
    terms.append(["diag", [0, 2, 0]])
    terms.append(["conj", []])
    for a in A:
        for b in A:
            terms.append(["comp", a, b])
    for op in ("conj", "stack"):
        for r in (1, 2, 3):
            for combo in itertools.product(A, repeat=r):
                terms.append([op, list(combo)])
    return terms


def _iface(term):
    m = model(term)
    if m is None:
        return None
    return (tuple(sorted(m["req"])), tuple(sorted(m["out"])), tuple(m["typ"](t) for t in ((T_EMPTY, None), (T_GRAD, None), (T_JAC, 3))))


def depth3_terms(stride=1, offset=0):
    reps = {}
    A = atoms(valid_only=True)
    base = list(A) + [["conj", []]]
    for a in A:
        for b in A:
            base.append(["comp", a, b])
    for op in ("conj", "stack"):
        for r in (1, 2):
            for combo in itertools.product(A, repeat=r):
                base.append([op, list(combo)])
    for t in base:
        k = _iface(t)
        if k is not None and (k not in reps or depth(t) > depth(reps[k])):
            reps[k] = t
    R = [t for t in reps.values()]
    terms = []
    for a in R:
        for b in R:
            terms.append(["comp", a, b])
            terms.append(["conj", [a, b]])
            terms.append(["stack", [a, b]])
    return terms[offset::stride]


_CACHE = {}


class _Lazy:
    """Sequence of cases {"kind": "term", "term": ...} built on first use in each worker."""

    def __init__(self, name, fn):
        self.name, self.fn = name, fn

    def _get(self):
        if self.name not in _CACHE:
            _CACHE[self.name] = self.fn()
        return _CACHE[self.name]

    def __len__(self):
        return len(self._get())

    def __getitem__(self, i):
        return {"kind": "term", "term": self._get()[i]}


# dictionaries
D_KEY_SHAPES = [(), (1,), (2,), (3,), (2, 3), (1, 2)]
D_VAL_SHAPES = [(), (1,), (2,), (3,), (6,), (1, 1), (1, 2), (2, 1), (2, 2), (2, 3), (3, 2), (4, 2), (4, 3), (1, 6), (4, 6), (4,),
                (4, 1), (4, 2, 3), (4, 1, 2), (2, 2, 3)]
D_TYPES = ["Gradients", "Jacobians", "GradientVectors", "JacobianMatrices", "EmptyTensorDict"]
D_CLASSES = {"Gradients": Gradients, "Jacobians": Jacobians, "GradientVectors": GradientVectors,
             "JacobianMatrices": JacobianMatrices, "EmptyTensorDict": EmptyTensorDict}


def dict_cases(tier):
    cases = []
    for t in D_TYPES:
        cases.append({"kind": "dict", "type": t, "entries": []})
        for k in range(len(D_KEY_SHAPES)):
            for v in range(len(D_VAL_SHAPES)):
                cases.append({"kind": "dict", "type": t, "entries": [[k, v]]})
        pairs = [(k, v) for k in range(len(D_KEY_SHAPES)) for v in range(len(D_VAL_SHAPES))]
        rng = np.random.default_rng(14)
        if tier == "quick":
            sel = rng.choice(len(pairs) ** 2, size=1500, replace=False)
        else:
            sel = range(len(pairs) ** 2)
        for s in sel:
            a, b = pairs[int(s) // len(pairs)], pairs[int(s) % len(pairs)]
            cases.append({"kind": "dict", "type": t, "entries": [list(a), list(b)]})
    return cases


def pair_ok(t, ks, vs):
    numel = int(np.prod(ks)) if ks else 1
    if t == "Gradients":
        return vs == ks
    if t == "Jacobians":
        return len(vs) >= 1 and vs[1:] == ks
    if t == "GradientVectors":
        return len(vs) == 1 and vs[0] == numel
    if t == "JacobianMatrices":
        return len(vs) == 2 and vs[1] == numel
    return False


def dict_ok(t, entries):
    if t == "EmptyTensorDict":
        return len(entries) == 0
    if t in ("Jacobians", "JacobianMatrices"):
        # the unique-first-dimension rule is checked first and needs every value to have a first dimension
        firsts = []
        for _, v in entries:
            vs = D_VAL_SHAPES[v]
            if len(vs) == 0:
                return False  # 0-d value: no first dimension at all (the implementation fails with IndexError)
            firsts.append(vs[0])
        if len(set(firsts)) > 1:
            return False
    return all(pair_ok(t, D_KEY_SHAPES[k], D_VAL_SHAPES[v]) for k, v in entries)


# ------------------------------------------------------------------------------------------------
# strategies
# ------------------------------------------------------------------------------------------------


def _atom_strategy():
    sub = st.sampled_from(SUBSETS).map(list)
    return st.one_of(
        st.tuples(st.just("init"), sub).map(list),
        st.tuples(st.just("select"), sub, sub).map(list),
        st.permutations(list(ALL)).flatmap(lambda p: st.integers(0, 3).map(lambda k: ["diag", list(p)[:k]])),
        st.tuples(st.just("acc"), sub).map(list),
    )


def _term_strategy(max_leaves=8):
    return st.recursive(
        _atom_strategy(),
        lambda ch: st.one_of(
            st.tuples(st.just("comp"), ch, ch).map(list),
            st.tuples(st.just("conj"), st.lists(ch, min_size=0, max_size=3)).map(list),
            st.tuples(st.just("stack"), st.lists(ch, min_size=1, max_size=3)).map(list),
        ),
        max_leaves=max_leaves,
    )


@st.composite
def _pipeline(draw):
    """Well-formed chains c << b << a built so that they compose (for the associativity law), plus random triples."""
    if draw(st.booleans()):
        return {"kind": "law", "terms": [draw(_term_strategy(4)) for _ in range(3)]}
    s0 = list(draw(st.sampled_from(SUBSETS[1:])))
    s1 = [k for k in s0 if draw(st.booleans())] or s0[:1]
    a = ["init", s0]
    b = draw(st.sampled_from([["select", s1, s0], ["diag", s0], ["conj", [["select", s1, s0]]], ["stack", [["select", s0, s0]]]]))
    mb = model(b)
    out_b = sorted(mb["out"])
    c = draw(st.sampled_from([["select", out_b[:1], out_b], ["acc", out_b], ["select", out_b, out_b], ["diag", out_b]]))
    return {"kind": "law", "terms": [c, b, a]}


def parts(tier):
    n = 4_000 if tier == "quick" else 100_000
    ps = [
        Part("depth<=2", "enum", cases=lambda: _Lazy("d2", depth2_terms),
             exhaustive_note="all transform terms of nesting depth <= 2 over 3 keys (atoms, atom<<atom, Conjunction/Stack of <= 3 atoms)"),
        Part("dictionaries", "enum", cases=lambda: dict_cases(tier),
             exhaustive_note="five dictionary types x all 0/1-entry dictionaries over 6 key shapes x 20 value shapes" +
             (" and all 14 400 2-entry combinations" if tier == "thorough" else " and 1 500 sampled 2-entry combinations per type")),
        Part("deep_terms", "given", n=n, strategy=lambda: _term_strategy(10).map(lambda t: {"kind": "term", "term": t})),
        Part("laws", "given", n=n, strategy=_pipeline),
    ]
    import os

    if tier == "thorough":
        d3 = lambda: _Lazy("d3", depth3_terms)  # noqa: E731
        note3 = ("depth-3 terms: every composition and every 2-element Conjunction/Stack of one representative per "
                 "interface class (required, output, value typing) of the depth-<=2 terms")
    else:
        off = int(os.environ.get("VERIF_SEED", "1")) % 3
        d3 = lambda: _Lazy("d3q", lambda: depth3_terms(3, off))  # noqa: E731
        note3 = "depth-3 terms modulo interface: every third term of the complete list (offset VERIF_SEED mod 3); complete in the thorough tier"
    ps.insert(1, Part("depth3_mod_interface", "enum", cases=d3, exhaustive_note=note3))
    return ps


# ------------------------------------------------------------------------------------------------
# checks
# ------------------------------------------------------------------------------------------------


def _check_term(term, out):
    keys = fresh_keys()
    m = model(term)
    tr, exc = try_build(term, keys)
    d = depth(term)
    if d >= 3:
        out.cls("depth3")
    if m is None:
        # ill-formed: must raise ValueError
        ok = exc is not None and isinstance(exc, ValueError)
        out.check(ok, "ill-formed-term-accepted" if exc is None else "wrong-exception-for-ill-formed-term",
                  f"{term}: {'constructed' if exc is None else type(exc).__name__ + ': ' + str(exc)[:100]}")
        sub_ok = term[0] in ("comp",) and all(model(t) is not None for t in term[1:3]) or \
            term[0] in ("conj", "stack") and all(model(t) is not None for t in term[1]) or term[0] in ("select", "diag")
        if sub_ok:
            out.cls("rejected-at-root")
            out.nontrivial = True
        return
    if not out.check(exc is None, "well-formed-term-rejected", f"{term}: {type(exc).__name__ if exc else ''}: {str(exc)[:120]}"):
        return
    out.cls("accepted")
    out.check(set(tr.required_keys) == {keys[i] for i in m["req"]}, "required-keys", f"{term}")
    out.check(set(tr.output_keys) == {keys[i] for i in m["out"]}, "output-keys", f"{term}")
    # wrong key sets must be rejected with ValueError before anything runs
    for S in SUBSETS:
        if frozenset(S) == m["req"]:
            continue
        for k in keys:
            k.grad = None
        try:
            tr(make_input(keys, S, T_GRAD))
            out.check(False, "wrong-keys-accepted", f"{term} applied to keys {S}, requires {sorted(m['req'])}")
        except ValueError:
            pass
        except Exception as e:  # noqa: BLE001
            out.check(False, "wrong-keys-wrong-exception", f"{term} applied to keys {S}: {type(e).__name__}: {str(e)[:80]}")
        out.check(all(k.grad is None for k in keys), "wrong-keys-call-had-side-effects", f"{term} applied to keys {S}")
    # application on well-keyed inputs (also when the model says the VALUES are ill-typed: then it may raise, but if it
    # succeeds the result must still have the declared keys and satisfy its own dictionary type)
    in_types = [T_EMPTY] if not m["req"] else [T_GRAD, T_JAC]
    n_diag = _count(term, "diag")
    for it in in_types:
        want = m["typ"]((it, 3 if it == T_JAC else None))
        if want is None and n_diag >= 2:
            # each Diagonalize squares the number of entries of an (ill-typed) Jacobian-like input: a chain of them needs
            # tens of gigabytes (this killed a worker of the first thorough run); such applications are not attempted
            out.cls("ill-typed-application-skipped(nested-Diagonalize)")
            continue
        try:
            tname, vals, grads = apply_and_observe(tr, keys, m, it)
        except IllTyped as e:
            out.check(False, "result-contradicts-its-dictionary-type", f"{term} on a {it} input returned {e}")
            continue
        except Exception as e:  # noqa: BLE001
            out.check(want is None, "well-typed-application-raises", f"{term} on a {it} input: {type(e).__name__}: {str(e)[:120]}")
            continue
        out.cls("applied")
        out.check(set(vals) == set(m["out"]), "result-keys", f"{term}: result keys {sorted(vals)} declared {sorted(m['out'])}")
        if want is not None:
            out.check(tname == want[0], "result-type", f"{term} on {it}: {tname}, model {want[0]}")
        if d >= 2:
            out.nontrivial = True


def _same_obs(a, b):
    if a[0].startswith("raises") and b[0].startswith("raises"):
        return True  # both applications fail (which ill-typed member fails first depends on the order: not constrained)
    if a[0] != b[0] or set(a[1]) != set(b[1]):
        return False
    for k in a[1]:
        if a[1][k].shape != b[1][k].shape or not torch.equal(a[1][k], b[1][k]):
            return False
    for k in a[2]:
        x, y = a[2][k], b[2][k]
        if (x is None) != (y is None) or (x is not None and not torch.equal(x, y)):
            return False
    return True


def _check_laws(terms, out):
    a, b, c = terms
    variants = {
        "law:assoc-composition": [["comp", ["comp", a, b], c], ["comp", a, ["comp", b, c]]],
        "law:conjunction": [["conj", [["conj", [a, b]], c]], ["conj", [a, ["conj", [b, c]]]], ["conj", [a, b, c]],
                            ["conj", [["conj", [b, a]], c]], ["conj", [c, b, a]]],
    }
    for law, vs in variants.items():
        ms = [model(v) for v in vs]
        acc = [m is not None for m in ms]
        keys = fresh_keys()
        built = [try_build(v, keys) for v in vs]
        out.check(len({(tr is not None) for tr, _ in built}) == 1, law + ":acceptance-differs",
                  f"{vs}: accepted {[tr is not None for tr, _ in built]}")
        out.check(len(set(acc)) == 1, "model-inconsistent", f"{vs}")  # sanity of the reference model itself
        if not all(tr is not None for tr, _ in built) or not all(acc):
            continue
        out.cls(law)
        m = ms[0]
        req = {frozenset(tr.required_keys) for tr, _ in built}
        outk = {frozenset(tr.output_keys) for tr, _ in built}
        out.check(len(req) == 1 and len(outk) == 1, law + ":interface-differs", f"{vs}")
        in_types = [T_EMPTY] if not m["req"] else [T_GRAD]
        for it in in_types:
            typed = [mm["typ"]((it, None)) is not None for mm in ms]
            if not all(typed) and max(_count(v, "diag") for v in vs) >= 2:
                continue  # ill-typed application with nested Diagonalize: quadratic blow-up of sizes, not attempted
            obs = []
            for tr, _ in built:
                try:
                    obs.append(apply_and_observe(tr, keys, m, it))
                except Exception as e:  # noqa: BLE001
                    obs.append(("raises:" + type(e).__name__, {}, {}))
            # "whenever construction and application succeed": a grouping whose INTERMEDIATE union is ill-typed at the
            # value level (e.g. two Jacobians with different row counts united before a Gradients joins them) may fail
            # where the flat form succeeds; the law is claimed between the groupings that the model types
            good = [o for o, t in zip(obs, typed) if t]
            for o, t, v in zip(obs, typed, vs):
                out.check(not (t and o[0].startswith("raises")), law + ":well-typed-variant-raises", f"{v}: {o[0]}")
            ok = all(_same_obs(good[0], o) for o in good[1:]) if good else True
            out.check(ok, law + ":results-differ", f"{vs}: {[o[0] for o in obs]} (typed: {typed})")
            if good and not good[0][0].startswith("raises"):
                out.nontrivial = True


def _check_dict(case, out):
    t = case["type"]
    cls = D_CLASSES[t]
    out.cls("dict", "dict:" + t)
    entries = case["entries"]
    want = dict_ok(t, entries)
    d = {}
    for k, v in entries:
        d[torch.zeros(D_KEY_SHAPES[k])] = torch.ones(D_VAL_SHAPES[v])
    try:
        obj = cls(d)
        made = True
    except (ValueError, IndexError):
        made = False  # "cannot be created": ValueError, or IndexError for a 0-d value in a Jacobian-like dictionary
    except Exception as e:  # noqa: BLE001
        out.check(False, "dict-wrong-exception", f"{t}{entries}: {type(e).__name__}: {str(e)[:80]}")
        return
    out.check(made == want, "dict-accepts-ill-shaped" if made else "dict-rejects-well-shaped",
              f"{t} with (key shape, value shape) {[(D_KEY_SHAPES[k], D_VAL_SHAPES[v]) for k, v in entries]}")
    if not want:
        out.cls("dict:rejected")
        bad = [pair_ok(t, D_KEY_SHAPES[k], D_VAL_SHAPES[v]) for k, v in entries]
        out.nontrivial = len(entries) >= 1 and bad.count(False) <= 1
    if made:
        snapshot = dict(obj)
        k0 = torch.zeros(())
        muts = {
            "setitem": lambda: obj.__setitem__(k0, torch.ones(())),
            "delitem": lambda: obj.__delitem__(next(iter(obj), k0)),
            "update": lambda: obj.update({k0: torch.ones(())}),
            "pop": lambda: obj.pop(next(iter(obj), k0)),
            "popitem": lambda: obj.popitem(),
            "setdefault": lambda: obj.setdefault(k0, torch.ones(())),
            "clear": lambda: obj.clear(),
        }
        for name, f in muts.items():
            try:
                f()
                out.check(False, "dict-mutation-allowed:" + name, f"{t}")
            except TypeError:
                pass
            except Exception as e:  # noqa: BLE001
                out.check(False, "dict-mutation-wrong-exception:" + name, f"{type(e).__name__}")
            same = list(obj.keys()) == list(snapshot.keys()) and all(obj[k] is snapshot[k] for k in snapshot)
            out.check(same, "dict-changed-by-rejected-mutation:" + name, f"{t}")
        out.nontrivial = out.nontrivial or len(entries) >= 1


def run_case(case) -> Outcome:
    out = Outcome()
    if case["kind"] == "term":
        _check_term(case["term"], out)
    elif case["kind"] == "law":
        _check_laws(case["terms"], out)
    else:
        _check_dict(case, out)
    return out
