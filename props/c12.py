"""C12 - Default parameter discovery finds exactly the leaves that matter."""

import numpy as np
import torch
from hypothesis import strategies as st

from torchjd import backward, mtl_backward
from torchjd.aggregation import Constant
from vlib import jdcheck, programs as P
from vlib.matrices import eps_of
from vlib.runner import Outcome, Part

ID = "C12"
RULE = (
    "Differential testing of defaulted vs explicit parameter lists on twin graphs. backward: generated programs "
    "(diamonds through reuse, chains up to depth 30, leaves not requiring grad, detached sub-graphs, unbind/split) "
    "called without `inputs` vs with inputs = the reference set computed on the IR (requires-grad leaves reachable "
    "from the outputs through differentiable paths). mtl_backward: generated trunk/heads programs (features that are "
    "sibling outputs of a multi-output op, heads reaching the trunk around the features incl. through siblings, "
    "losses using only some features, leaves shared between tasks) called without tasks_params/shared_params (or with only "
    "one of them omitted) vs "
    "with the reference sets (shared = leaves of the features; task i = leaves of loss i not passing through the "
    "feature TENSORS). Oracle: when the reference default sets are disjoint both calls leave identical .grad on "
    "every leaf (incl. None-ness); when they overlap the defaulted call must raise ValueError and leave every .grad "
    "untouched. Aggregator: Constant with distinct weights (row-order sensitive, column-wise exact). Non-trivial = "
    "a leaf reachable both through and around a feature, or a detached branch, or a multi-output op, or a no-grad "
    "leaf. Distinct = distinct case description."
    " Programs may contain a user-defined autograd.Function whose ctx (= its backward node) carries an attribute named `variable`."
)
ASSUMPTIONS = ["outputs/features are non-leaf tensors requiring grad (the helper's documented domain)"]
LEVEL_TEXT = "Generated-input differential testing of the graph traversal against reachability computed on the IR. No proof."
LEVEL_NOTE = "Trusted: the IR reachability reference (cuts at tensors, not autograd nodes); torch graph construction."
TECHNIQUE = "property-based differential testing (Hypothesis): defaulted call vs explicit call with a reference-model parameter set"
REQUIRED_CLASSES = {"backward": 1, "mtl": 1, "mtl:overlap-rejected": 1, "multi-output": 1, "detach": 1, "deep-chain": 1,
                    "sibling-bypass": 1}

CHAIN_OPS = ["sin", "tanh", "neg", "scale", "sin", "tanh", "add", "mul", "detach", "unbind", "stack", "select"]


@st.composite
def _case(draw):
    rng = np.random.default_rng(draw(st.integers(0, 2**32 - 1)))
    kind = draw(st.sampled_from(["backward", "deep", "mtl", "mtl", "mtl-sibling", "mtl-sibling"]))
    if kind == "backward":
        prog = draw(P.programs(max_leaves=4, max_nodes=10, max_outputs=3, min_leaves=2))
    elif kind == "deep":
        prog = draw(P.programs(max_leaves=3, max_nodes=30, max_outputs=2, ops=CHAIN_OPS, min_leaves=2))
    elif kind == "mtl-sibling":
        prog = draw(P.mtl_programs(max_trunk_nodes=4, sibling=True))
        kind = "mtl"
    else:
        prog = draw(P.mtl_programs(max_trunk_nodes=6))
    if kind == "mtl":
        m = len(prog["losses"])
    else:
        shapes = P.infer_shapes(prog)
        m = sum(P.numel(shapes[tuple(r)]) for r in prog["outputs"])
    w = (rng.integers(1, 6, size=m) + 0.25 * np.arange(m)).tolist()
    return {"kind": "mtl" if kind == "mtl" else "backward", "prog": prog, "w": w, "pre": jdcheck.pre_grads(rng, prog, 0.3),
            "deep": kind == "deep",
            # which of the two lists is left to the default (both, or only one: "mixed" calls)
            "defaulted": ["both", "both", "tasks", "shared"][int(rng.integers(0, 4))]}


def parts(tier):
    n = 5_000 if tier == "quick" else 100_000
    return [Part("generated", "given", n=n, strategy=_case)]


def _grads(g):
    return [None if l.grad is None else l.grad.clone() for l in g.leaves]


def _compare(out, label, g1, g2, dtype, scale):
    tol = 64 * eps_of(dtype) * max(1.0, scale)
    for i, (a, b) in enumerate(zip(g1.leaves, g2.leaves)):
        if not out.check((a.grad is None) == (b.grad is None), f"{label}:parameter-set-differs",
                         f"leaf {i}: defaulted call -> .grad {'None' if a.grad is None else 'set'}, explicit call with the "
                         f"reference set -> {'None' if b.grad is None else 'set'}"):
            continue
        if a.grad is not None:
            if not out.check(tuple(a.grad.shape) == tuple(b.grad.shape), f"{label}:grad-shape", f"leaf {i}"):
                continue
            err = float((a.grad.double() - b.grad.double()).abs().max()) if a.grad.numel() else 0.0
            out.within(err, tol, f"{label}:values-differ", f"leaf {i}: {a.grad.tolist()} vs {b.grad.tolist()}")


def run_case(case) -> Outcome:
    out = Outcome()
    prog, dtype = case["prog"], case["prog"]["dtype"]
    tdt = getattr(torch, dtype)
    dual = P.run_dual(prog)
    if not jdcheck.scale_ok(dtype, dual.max_abs):
        out.excluded = "values-or-tangents-exceed-1e6"
        return out
    ops = {n["op"] for n in prog["nodes"]}
    out.cls(case["kind"], dtype)
    feats_nt = []
    if ops & set(P.MULTI):
        out.cls("multi-output")
        feats_nt.append(1)
    if "detach" in ops:
        out.cls("detach")
        feats_nt.append(1)
    if any(not lf["rg"] for lf in prog["leaves"]):
        feats_nt.append(1)
    if case["deep"] and len(prog["nodes"]) >= 15:
        out.cls("deep-chain")
    w = torch.tensor(case["w"], dtype=tdt)
    scale = float(w.abs().max()) * max(1.0, dual.max_abs) ** 2 * len(case["w"])
    g1, g2 = P.TorchGraph(prog), P.TorchGraph(prog)
    before = jdcheck.set_pre_grads(g1.leaves, case["pre"])
    jdcheck.set_pre_grads(g2.leaves, case["pre"])

    if case["kind"] == "backward":
        ref = sorted(P.leaf_deps(prog, prog["outputs"]))
        try:
            backward([g1.get(r) for r in prog["outputs"]], Constant(w))
        except Exception as e:  # noqa: BLE001
            out.check(False, f"backward-raises:{type(e).__name__}", str(e)[:300])
            return out
        backward([g2.get(r) for r in prog["outputs"]], Constant(w), inputs=[g2.leaves[i] for i in ref])
        _compare(out, "backward", g1, g2, dtype, scale)
        out.nontrivial = bool(feats_nt) or case["deep"]
        return out

    feats = prog["features"]
    d_shared = sorted(P.leaf_deps(prog, feats))
    d_tasks = [sorted(P.leaf_deps(prog, [l], stop=feats)) for l in prog["losses"]]
    defaulted = case.get("defaulted", "both")
    out.cls("defaulted:" + defaulted)
    # the list that is passed explicitly is the one the program declares (trunk leaves / listed task leaves)
    x_shared = d_shared if defaulted in ("both", "shared") else list(prog["shared_leaves"])
    x_tasks = d_tasks if defaulted in ("both", "tasks") else [list(t) for t in prog["task_leaves"]]
    d_shared, d_tasks = x_shared, x_tasks
    task_union = {p for t in d_tasks for p in t}
    overlap = bool(set(d_shared) & task_union)
    # leaves reached around a feature through a sibling result of the feature's own multi-output node
    feat_nodes = {(f[0], f[1]) for f in feats if len(f) == 3}
    sibling = False
    for nd in prog["nodes"]:
        for a in nd["args"]:
            if len(a) == 3 and (a[0], a[1]) in feat_nodes and list(a) not in [list(f) for f in feats]:
                sibling = True
    if sibling:
        out.cls("sibling-bypass")
    through_and_around = bool(set(P.leaf_deps(prog, prog["losses"])) & set(d_shared) & task_union)
    losses1 = [g1.get(l) for l in prog["losses"]]
    f1 = [g1.get(f) for f in feats]
    kw1 = {}
    if defaulted == "tasks":
        kw1["shared_params"] = [g1.leaves[p] for p in d_shared]
    elif defaulted == "shared":
        kw1["tasks_params"] = [[g1.leaves[p] for p in t] for t in d_tasks]
    try:
        mtl_backward(losses1, f1, Constant(w), retain_graph=True, **kw1)
        raised = None
    except ValueError as e:
        raised = e
    except Exception as e:  # noqa: BLE001
        out.check(False, f"mtl_backward-raises:{type(e).__name__}", str(e)[:300])
        return out
    if overlap:
        out.cls("mtl:overlap-rejected")
        out.check(raised is not None, "overlap-not-rejected",
                  f"default shared set {d_shared} and default task sets {d_tasks} overlap, but the call was accepted")
        after = _grads(g1)
        for i, a in enumerate(after):
            b = before[i]
            same = (a is None and b is None) or (a is not None and b is not None and torch.equal(a, b))
            out.check(same, "rejected-call-modified-grad", f"leaf {i}")
        out.nontrivial = True
        return out
    if not out.check(raised is None, "disjoint-defaults-rejected", f"{raised}; shared {d_shared}, tasks {d_tasks}"):
        return out
    mtl_backward([g2.get(l) for l in prog["losses"]], [g2.get(f) for f in feats], Constant(w),
                 tasks_params=[[g2.leaves[p] for p in t] for t in d_tasks], shared_params=[g2.leaves[p] for p in d_shared],
                 retain_graph=True)
    _compare(out, "mtl", g1, g2, dtype, scale)
    out.nontrivial = bool(feats_nt) or through_and_around or sibling
    return out
