"""C02 - mtl_backward(): own-task gradients for heads, aggregated Jacobian for the trunk."""

import numpy as np
import torch
from hypothesis import strategies as st

from torchjd import mtl_backward
from vlib import jdcheck, large, programs as P
from vlib.runner import Outcome, Part

ID = "C02"
RULE = (
    "Hypothesis-generated trunk/heads programs: 1-3 shared leaves (equal shapes favoured, optional no-grad leaf), a "
    "random trunk DAG producing 1-3 mutually independent feature tensors of any shape (incl. sibling outputs of "
    "unbind/split), 1-4 tasks each with 0-3 own leaves, leaves shared between tasks, listed-but-unused leaves, heads "
    "optionally reaching the trunk around the features; explicit or defaulted tasks_params / shared_params (defaults "
    "only when the default sets are disjoint - the overlap case belongs to C12), features passed as tensor or list, "
    "optionally shared_params=[] (frozen trunk), parameter groups passed as list / tuple / generator / iterator (the signature takes Iterable[Tensor]), "
    "chunk sizes, retain_graph both ways, pre-existing .grad, aggregators incl. row-order-sensitive ones (Constant "
    "with distinct weights, Krum, pref vectors) and position coding, all wrapped in a recording aggregator. Oracle: "
    "the aggregator sees row i = sum_f dloss_i/dF_f . dF_f/dshared, computed by NumPy dual numbers with the features "
    "cut (treated as independent inputs of the heads) times the trunk Jacobian; shared .grad increments are bitwise "
    "the slices of the returned vector; each task leaf's increment equals the sum over the tasks listing it of the "
    "oracle's dloss_t/dleaf; every other .grad is untouched. Non-trivial = >= 2 tasks with distinct rows and one of: "
    ">= 2 features, a leaf listed by >= 2 tasks, a task without parameters, >= 2 shared leaves of equal numel. "
    "Distinct = distinct case description."
    " Part `large_trunk`: 2-5 tasks over 7e4..2.4e6 shared scalars in 2-3 tensors, closed-form rows t_i (c_i * (1 - tanh(F)^2)) [A_1|A_2|..]."
)
ASSUMPTIONS = [
    "features are mutually independent nodes (a feature computed from another feature is double counted by "
    "torch.autograd itself and is outside the statement)",
    "derivative tolerance 1e-9 / 3e-4 relative to the largest intermediate magnitude",
]
LEVEL_TEXT = (
    "Generated-input search over random trunk/heads DAGs with an independent forward-mode oracle that cuts the graph "
    "at the feature tensors; row order and slice layout are checked exactly through a recording aggregator. No proof."
)
LEVEL_NOTE = "Trusted: the NumPy dual-number oracle with cuts (cross-checked against torch.autograd.grad w.r.t. the features)."
TECHNIQUE = "property-based testing (Hypothesis) over generated trunk/heads programs with a reference-model oracle"
REQUIRED_CLASSES = {"containers:generator": 0, "tasks>=2": 1, "features>=2": 1, "overlapping-task-leaves": 1, "task-without-params": 1,
                    "defaults:tasks": 1, "defaults:shared": 1, "around": 1}


@st.composite
def _case(draw):
    rng = np.random.default_rng(draw(st.integers(0, 2**32 - 1)))
    prog = draw(P.mtl_programs())
    m = len(prog["losses"])
    chunks = [None, None, 1] + list(range(1, m + 3))
    return {
        "prog": prog,
        "explicit_tasks": bool(rng.integers(0, 3) > 0),
        "explicit_shared": bool(rng.integers(0, 3) > 0),
        "agg": jdcheck.jd_aggregator(rng, m, order_sensitive_bias=3),
        "chunk": chunks[int(rng.integers(0, len(chunks)))],
        "pre": jdcheck.pre_grads(rng, prog),
        "features_as_tensor": bool(rng.integers(0, 2)),
        "retain": bool(rng.integers(0, 3) == 0),
        # the signature takes Iterable[Tensor] for shared_params and for each group of tasks_params
        "containers": [["list", "list", "tuple", "generator", "iterator"][int(rng.integers(0, 5))] for _ in range(2)],
        "frozen_trunk": bool(rng.integers(0, 8) == 0),  # shared_params=[] passed explicitly: heads-only training
    }


def parts(tier):
    n = 5_000 if tier == "quick" else 100_000
    return [Part("generated", "given", n=n, strategy=_case),
            # shared Jacobians of 10^5 .. 10^7 entries (closed-form oracle): size-dependent paths in the pipeline
            Part("large_trunk", "given", n=32 if tier == "quick" else 480, strategy=lambda: large.cases("mtl"))]


def plan(case):
    """Resolves which parameter lists are passed and which sets the call is expected to use."""
    prog = case["prog"]
    feats = prog["features"]
    d_shared = sorted(P.leaf_deps(prog, feats))
    d_tasks = [sorted(P.leaf_deps(prog, [l], stop=feats)) for l in prog["losses"]]
    explicit_tasks, explicit_shared = case["explicit_tasks"], case["explicit_shared"]
    shared = prog["shared_leaves"] if explicit_shared else d_shared
    if case.get("frozen_trunk") and explicit_shared:
        shared = []
    tasks = prog["task_leaves"] if explicit_tasks else d_tasks
    overlap = bool(set(shared) & {p for t in tasks for p in t})
    return shared, tasks, overlap


def as_container(items, kind):
    """The documented argument type is Iterable[Tensor]: lists, tuples, generators (e.g. module.parameters()), iterators."""
    if kind == "tuple":
        return tuple(items)
    if kind == "generator":
        return (x for x in items)
    if kind == "iterator":
        return iter(list(items))
    return list(items)


def expected_updates(prog, dual_cut, dual_full, shared, tasks):
    blocks = {}
    for li in shared:
        rows = []
        for l in prog["losses"]:
            row = np.zeros((1, P.numel(prog["leaves"][li]["shape"])))
            for f in prog["features"]:
                row = row + dual_cut.jac_cut(l, f) @ dual_cut.jac(f, li, prog, precut=True)
            rows.append(row)
        blocks[li] = np.concatenate(rows, axis=0)
    task_upd = {}
    for t, plist in enumerate(tasks):
        for p in plist:
            g = dual_full.jac(prog["losses"][t], p, prog).reshape(prog["leaves"][p]["shape"])
            task_upd[p] = task_upd.get(p, 0) + g
    return blocks, task_upd


def run_case(case) -> Outcome:
    out = Outcome()
    if case.get("kind") == "large":
        return large.run(case, out)
    prog, spec, dtype = case["prog"], case["agg"], case["prog"]["dtype"]
    m = len(prog["losses"])
    dual_cut = P.run_dual(prog, cuts=prog["features"])
    dual_full = P.run_dual(prog)
    scale = max(dual_cut.max_abs, dual_full.max_abs)
    if not jdcheck.scale_ok(dtype, scale):
        out.excluded = "values-or-tangents-exceed-1e6"
        return out
    if prog["around"]:
        case = dict(case, explicit_tasks=True, retain=True)
    shared, tasks, overlap = plan(case)
    if overlap:
        case = dict(case, explicit_tasks=True, explicit_shared=True)
        shared, tasks, overlap = plan(case)
    out.cls(dtype, "agg:" + spec["name"], f"tasks={m}", f"features={len(prog['features'])}")
    if m >= 2:
        out.cls("tasks>=2")
    if len(prog["features"]) >= 2:
        out.cls("features>=2")
    if not case["explicit_tasks"]:
        out.cls("defaults:tasks")
    if not case["explicit_shared"]:
        out.cls("defaults:shared")
    if prog["around"]:
        out.cls("around")
    listed = [p for t in tasks for p in t]
    multi = len(set(listed)) < len(listed)
    if multi:
        out.cls("overlapping-task-leaves")
    if any(len(t) == 0 for t in tasks):
        out.cls("task-without-params")
    g = P.TorchGraph(prog)
    before = jdcheck.set_pre_grads(g.leaves, case["pre"])
    rec = jdcheck.make_recording(spec, dtype)
    feats = [g.get(f) for f in prog["features"]]
    kw = {}
    cont = case.get("containers", ["list", "list"])
    out.cls("containers:" + "+".join(sorted(set(cont))))
    if case["explicit_tasks"]:
        kw["tasks_params"] = [as_container([g.leaves[p] for p in t], cont[0]) for t in tasks]
    if case["explicit_shared"]:
        kw["shared_params"] = as_container([g.leaves[p] for p in shared], cont[1])
    try:
        mtl_backward([g.get(l) for l in prog["losses"]], feats[0] if (case["features_as_tensor"] and len(feats) == 1) else feats,
                     rec, retain_graph=case["retain"], parallel_chunk_size=case["chunk"], **kw)
    except Exception as e:  # noqa: BLE001
        out.check(False, f"mtl_backward-raises:{type(e).__name__}", str(e)[:300])
        return out
    blocks, task_upd = expected_updates(prog, dual_cut, dual_full, shared, tasks)
    if not shared:
        out.cls("frozen-trunk")
    if shared:
        if out.check(len(rec.calls) == 1, "aggregator-call-count", f"{len(rec.calls)} calls"):
            jdcheck.check_deposit(out, "shared", blocks, g.leaves, before, rec.calls[0], dtype, scale)
    tol = jdcheck.deriv_tol(dtype, scale) * max(1, m)
    for p, upd in task_upd.items():
        leaf = g.leaves[p]
        if not out.check(leaf.grad is not None, "task-grad-missing", f"task leaf {p} has no .grad"):
            continue
        if not out.check(tuple(leaf.grad.shape) == tuple(leaf.shape), "task-grad-shape", f"task leaf {p}: {tuple(leaf.grad.shape)}"):
            continue
        got = (leaf.grad - (before[p] if before[p] is not None else 0)).double().numpy()
        err = float(np.abs(got - upd).max(initial=0.0))
        out.within(err, tol, "task-gradient",
                   f"task leaf {p} (listed by tasks {[t for t, pl in enumerate(tasks) if p in pl]}): increment {got.tolist()} "
                   f"vs sum of its tasks' gradients {np.asarray(upd).tolist()}")
    touched = set(shared) | set(task_upd)
    for i, leaf in enumerate(g.leaves):
        if i in touched:
            continue
        old = before[i]
        same = (leaf.grad is None and old is None) or (leaf.grad is not None and old is not None and torch.equal(leaf.grad, old))
        out.check(same, "unlisted-grad-touched", f"leaf {i} is in no parameter list but its .grad changed")
    rows_distinct = m >= 2 and shared and len({tuple(np.concatenate([blocks[li][i] for li in shared]).round(12)) for i in range(m)}) == m
    nums = [P.numel(prog["leaves"][i]["shape"]) for i in shared]
    out.nontrivial = bool(rows_distinct) and (len(prog["features"]) >= 2 or multi or any(len(t) == 0 for t in tasks)
                                              or len(set(nums)) < len(nums))
    return out
