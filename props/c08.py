"""C08 - Weighted aggregators stay in the row span and only look at the Gramian."""

import numpy as np
import torch
from hypothesis import strategies as st

from vlib import aggs, refs, relations as rel
from vlib.matrices import SEEDS, build, eps_of, orthogonal, smax
from vlib.runner import RAISED, Outcome, Part

ID = "C08"
RULE = (
    "Hypothesis-generated (aggregator configuration, J, relation, transformation), 1<=m<=7, 1<=n<=9, both dtypes, "
    "families Gaussian / prescribed SVD / low rank / conflicting / stationary / grid / zero rows. Relations: span - "
    "the component of A(J) orthogonal to the rows of J vanishes (all aggregators documented as weighted: the 13 "
    "_WeightedAggregator subclasses incl. fresh NashMTL instances, and ConFIG); orth - A(JQ) ~ A(J)Q for a drawn "
    "dense orthogonal or signed-permutation Q (UPGrad, DualProj, MGDA, PCGrad, CAGrad, IMTL-G, Aligned-MTL, ConFIG, "
    "Krum, Mean, Sum, Constant, Random); colperm - A(J[:,p]) ~ A(J)[p]; zerocol - inserting 1-3 (or 100/1000/5000/20000) zero columns at drawn "
    "positions leaves the other coordinates unchanged and puts ~0 in the new ones (every aggregator but GradDrop, "
    "whose draws are per column; PCGrad/Random under a fixed seed, PCGrad with a scripted schedule so that its "
    "branch margins can be evaluated). Tolerances per algorithm (vlib/relations.py); MGDA two-level (fp when all "
    "Frank-Wolfe margins exceed the threshold on both sides, else d(J)+d(J')); Krum away from score ties (PCGrad is continuous at a vanishing inner product: its branch ties are checked, family `orthoblock` produces them); pinv/eigh/"
    "conic ones on full-row-rank matrices of bounded condition number. Non-trivial = (orth with a dense Q and m >= 2 "
    "with a conflicting pair) or (a column permutation moving >= 2 columns) or (span/zerocol with m >= 2). "
    "Distinct = distinct (configuration, J, relation, transformation)."
    " Half of the PCGrad cases run under torch.manual_seed only; zero-column insertions of up to 300 000 columns."
)
ASSUMPTIONS = [
    "JQ is formed in float64 and rounded to the dtype: the rounding is an input perturbation of relative size eps, "
    "absorbed by the per-algorithm amplification factors",
]
LEVEL_TEXT = "Generated-input search with metamorphic (orthogonal / column) relations and a span validity predicate. No proof."
LEVEL_NOTE = "Trusted: NumPy QR for Q, float64 least squares for the span residual, margin computations, constant K."
TECHNIQUE = "property-based testing (Hypothesis) with metamorphic relations and a validity predicate"
REQUIRED_CLASSES = {"huge-n": 1, "zerocol:wide": 1, "span": 1, "orth": 1, "colperm": 1, "zerocol": 1, "orth:dense": 1, "MGDA:tight": 1}

GRAMIAN = ["UPGrad", "DualProj", "MGDA", "PCGrad", "CAGrad", "IMTLG", "AlignedMTL", "ConFIG", "Krum", "Mean", "Sum",
           "Constant", "Random"]
COLUMN = GRAMIAN + ["TrimmedMean"]
SPAN = GRAMIAN + ["NashMTL"]


@st.composite
def _case(draw, near=False):
    """near=True: directed regime - orthogonal relation, aggregators with a normalisation threshold, every entry of J
    just below norm_eps while its largest singular value is above 2 norm_eps."""
    relation = "orth" if near else draw(st.sampled_from(["span", "orth", "orth", "colperm", "zerocol"]))
    pool = {"span": SPAN, "orth": GRAMIAN, "colperm": COLUMN, "zerocol": COLUMN}[relation]
    name = draw(st.sampled_from(["UPGrad", "DualProj", "CAGrad"] if near else pool))
    dtype = draw(st.sampled_from(["float64", "float32"]))
    rng = np.random.default_rng(draw(SEEDS))
    m = draw(st.integers(2, 7) if near else st.integers(1, 7))
    if name == "Krum":
        m = max(m, 4)
    big_krum = name == "Krum" and not near and draw(st.sampled_from([True, False, False]))
    if big_krum:
        m = draw(st.integers(26, 40))  # beyond 25 rows torch.cdist may switch to matmul-based distances
    if name == "NashMTL":
        m = draw(st.integers(2, 5))
    full = name in rel.RANK_BASED or name in ("CAGrad", "NashMTL")
    n = draw(st.integers(m if full else 1, 9))
    if big_krum:
        n = draw(st.sampled_from([8, 16, 40]))
    spec = {"name": name}
    if name in ("UPGrad", "DualProj", "AlignedMTL", "ConFIG") and draw(st.booleans()):
        spec["pref"] = (10.0 ** rng.uniform(-1, 1, size=m)).tolist()
    if name in ("UPGrad", "DualProj"):
        spec["reg_eps"] = draw(st.sampled_from([1e-4, 1e-2, 1e-3]))
    if name == "Constant":
        spec["weights"] = rng.standard_normal(m).tolist()
    if name == "MGDA" and draw(st.booleans()):
        spec["epsilon"] = draw(st.sampled_from([0.0, 1e-3]))
        spec["max_iters"] = draw(st.sampled_from([1, 3, 10, 100]))
    if name == "CAGrad":
        spec["c"] = draw(st.sampled_from([0.3, 0.5, 1.0, 2.0]))
    if name == "Krum":
        spec["f"] = draw(st.integers(0, max(0, m - 4)))
        spec["k"] = draw(st.integers(1, m))
    if name == "TrimmedMean":
        spec["b"] = draw(st.integers(0, (m - 1) // 2))
    if name == "NashMTL":
        spec.update(n_tasks=m, max_norm=draw(st.sampled_from([0.0, 1.0])))
    if full:
        cmax = 1.0 if name == "NashMTL" else (1.4 if dtype == "float32" else 2.4)
        J = build("svd", m, n, rng, {"cond": 10.0 ** draw(st.floats(0, cmax))})
        fam = "svd_full"
    else:
        fam = draw(st.sampled_from(["gauss", "gauss", "svd", "conflict", "conflict", "stationary", "lowrank", "grid",
                                    "zero_rows", "orthoblock", "orthoblock"]))
        if fam == "grid":
            J = rng.integers(-4, 5, size=(m, n)) / 2.0
        else:
            J = build(fam, m, n, rng, {"cond": 30.0, "rank": draw(st.integers(1, max(1, min(m, n)))), "eps": 1e-2,
                                       "delta": 1e-2})
    if big_krum:
        # rows sharing a large common component (distances are small differences of large numbers)
        # heterogeneous spreads keep the Krum scores well separated (no near-ties), the common offset is what matters
        J = rng.standard_normal((m, n)) * rng.uniform(0.3, 3.0, size=(m, 1)) + 10.0 ** draw(st.sampled_from([3, 4])) * np.sign(rng.standard_normal(n))
        dtype = "float32" if draw(st.sampled_from([True, True, False])) else dtype
        fam = "common-offset"
    J = J * 10.0 ** draw(st.integers(-3, 3))
    if name in ("UPGrad", "DualProj", "CAGrad") and (near or draw(st.sampled_from([True, False, False, False]))):
        # largest singular value just above norm_eps (entries may be below it): the normalisation threshold must look
        # at the singular value, i.e. at J J^T, not at the entries
        s0 = float(np.linalg.svd(J, compute_uv=False)[0]) if J.size else 0.0
        a0 = float(np.abs(J).max(initial=0.0))
        if s0 > 0:
            if (near or rng.integers(0, 2)) and s0 / a0 > 2.6:
                J = J * (1e-4 * rng.uniform(0.8, 0.999) / a0)  # every entry just below norm_eps, s above 2 norm_eps
            else:
                J = J * (1e-4 * 10.0 ** rng.uniform(0.4, 1.5) / s0)
    case = {"relation": relation, "agg": spec, "dtype": dtype, "J": J.tolist(), "family": fam,
            "seed": draw(st.integers(0, 2**31 - 1))}
    if relation == "orth":
        qkind = "dense" if near else draw(st.sampled_from(["dense", "dense", "dense", "perm"]))
        case["Q"] = orthogonal(rng, n, qkind).tolist()
        case["qkind"] = qkind
    elif relation == "colperm":
        case["perm"] = rng.permutation(n).tolist()
    elif relation == "zerocol":
        # 1-3 columns, or MANY (parameters that influence nothing are the common case in large models)
        k = draw(st.sampled_from([1, 2, 3, 100, 1000, 5000, 5000, 20000, 100_000, 300_000]))
        case["positions"] = sorted(rng.integers(0, n + 1, size=k).tolist()) if k <= 3 else {"count": k, "where": int(rng.integers(0, n + 1))}
    if name == "PCGrad":
        case["schedule"] = [rng.permutation(m).tolist() for _ in range(m)]
        # half of the PCGrad cases use no scripted schedule at all: only torch.manual_seed(seed) before every related call
        # ("under a fixed random seed"), so where the permutations come from - and how many are drawn - is part of the check
        case["seeded"] = draw(st.booleans())
    return case


@st.composite
def _huge_case(draw):
    """More than 2^20 columns (a model with a million parameters): column permutation / zero-column relations for the
    aggregators that stay cheap at that width. The matrix is expanded from a seed at run time."""
    name = draw(st.sampled_from(["TrimmedMean", "Mean", "Sum", "Constant", "Krum", "UPGrad", "MGDA"]))
    m = draw(st.integers(4, 6))
    rng = np.random.default_rng(draw(SEEDS))
    spec = {"name": name}
    if name == "Constant":
        spec["weights"] = rng.standard_normal(m).tolist()
    if name == "Krum":
        spec.update(f=1, k=2)
    if name == "TrimmedMean":
        spec["b"] = 1
    return {"relation": "huge", "agg": spec, "dtype": draw(st.sampled_from(["float64", "float32"])), "m": m,
            "n": 2**20 + draw(st.sampled_from([1, 3, 5, 1000, 2**19 + 7])), "seed": draw(st.integers(0, 2**31 - 1)),
            "J": [[0.0]], "family": "huge-n"}


def _huge_run(case, out):
    spec, dtype = case["agg"], case["dtype"]
    name = spec["name"]
    tdt = getattr(torch, dtype)
    rng = np.random.default_rng(case["seed"])
    m, n = case["m"], case["n"]
    out.cls("huge-n", name, dtype)
    J0 = rng.standard_normal((m, n))
    if name == "Krum":
        # i.i.d. Gaussian rows in 10^6 dimensions are all at distance sqrt(2n) (1 +- 7e-4) from each other: the scores
        # would be tied at the resolution of a float32 sum of 10^6 terms. Rows of different lengths separate them; what
        # remains closer than eps sqrt(n) (ten times the deviation observed between two column orders) is a tie.
        J0 = J0 * rng.uniform(0.3, 3.0, size=(m, 1))
    Jt = torch.tensor(J0, dtype=tdt)
    if name == "Krum":
        sc = np.sort(refs.krum_scores(Jt.double().numpy(), spec["f"]))
        k_ = spec["k"]
        if k_ < m and (sc[k_] - sc[k_ - 1]) <= eps_of(dtype) * np.sqrt(n) * sc[k_ - 1]:
            out.excluded = "krum-score-tie-at-float-resolution"
            return
    A = aggs.make(spec, dtype)
    x0 = out.call(f"raises:{name}", A, Jt)
    if x0 is RAISED:
        return
    if not out.check(tuple(x0.shape) == (n,) and bool(torch.isfinite(x0).all()), f"huge:shape-finite:{name}", str(tuple(x0.shape))):
        return
    perm = torch.from_numpy(rng.permutation(n))
    x1 = out.call(f"raises:{name}", aggs.make(spec, dtype), Jt[:, perm])
    if x1 is RAISED:
        return
    eps = eps_of(dtype)
    scale = float(x0.abs().max()) + 1.0
    tol = 1e3 * eps * scale if name in ("UPGrad", "MGDA") else 64 * eps * scale
    err = float((x1.double() - x0.double()[perm]).abs().max())
    out.within(err, tol, f"column-permutation:{name}", f"n = {n}: max deviation {err:.3e}")
    # a TrimmedMean / Mean coordinate depends on its own column only: compare a few columns with a direct computation
    if name in ("TrimmedMean", "Mean", "Sum"):
        cols = torch.tensor([0, 1, n // 2, 2**20 - 1, 2**20, n - 2, n - 1])
        sub_ = aggs.make(spec, dtype)(Jt[:, cols].contiguous())
        out.within(float((x0[cols].double() - sub_.double()).abs().max()), 64 * eps * scale, f"huge:column-locality:{name}",
                   f"columns {cols.tolist()} computed alone differ from the same columns inside the {n}-column matrix")
    out.nontrivial = True


def parts(tier):
    n = 15_000 if tier == "quick" else 400_000
    n2 = 2_000 if tier == "quick" else 40_000
    return [Part("generated", "given", n=n, strategy=_case),
            Part("entries_below_norm_eps", "given", n=n2, strategy=lambda: _case(near=True)),
            Part("million_columns", "given", n=32 if tier == "quick" else 600, strategy=_huge_case)]


def _run(spec, dtype, Jt, case):
    A = aggs.make(spec, dtype)
    torch.manual_seed(case["seed"])
    if spec["name"] == "PCGrad" and not case.get("seeded"):
        with rel.ScriptedRandperm(case["schedule"]):
            return A, A(Jt)
    return A, A(Jt)


def run_case(case) -> Outcome:
    out = Outcome()
    if case.get("relation") == "huge":
        _huge_run(case, out)
        return out
    spec, dtype, relation = case["agg"], case["dtype"], case["relation"]
    name = spec["name"]
    eps = eps_of(dtype)
    tdt = getattr(torch, dtype)
    Jt = torch.tensor(case["J"], dtype=tdt)
    J = Jt.double().numpy()
    m, n = J.shape
    s = smax(J)
    out.cls(relation, name, dtype, "family:" + case["family"])
    reason = rel.domain_exclusion(spec, dtype, J)
    if reason and not (relation == "span" and name not in ("UPGrad", "DualProj", "CAGrad")):
        out.excluded = reason
        return out
    if name == "PCGrad" and refs.pcgrad_margin(J, case["schedule"]) < rel.MARGIN[dtype] * 10:
        # a branch test g.g_j < 0 at (numerical) zero: PCGrad is continuous there (the correction vanishes with the
        # inner product), so the relation is still checked - only recorded as a class
        out.cls("pcgrad-branch-tie")
    res = out.call(f"raises:{name}", _run, spec, dtype, Jt, case)
    if res is RAISED:
        return out
    A, x0t = res
    x0 = x0t.double().numpy()
    wn = rel.weights_norm(A, Jt) if name not in ("TrimmedMean", "ConFIG", "NashMTL", "Random", "PCGrad") else 1.0
    if name == "PCGrad":
        with rel.ScriptedRandperm(case["schedule"]):
            wn = rel.weights_norm(A, Jt)
    tol = rel.base_tolerance(spec, dtype, J, wn, float(np.linalg.norm(x0)))
    conflicting = m >= 2 and bool((J @ J.T < 0).any())

    if relation == "span":
        res_norm = refs.span_residual(J, x0)
        sv = np.linalg.svd(J, compute_uv=False)
        out.within(res_norm, tol + rel.K * (m + n) * eps * float(np.linalg.norm(x0)), f"span:{name}",
                   f"A(J) = {x0.tolist()} has a component of norm {res_norm:.3e} outside the row space (sv {sv.tolist()})")
        out.nontrivial = m >= 2 and m < n
        return out

    if relation == "orth":
        Q = np.array(case["Q"])
        out.cls("orth:" + case["qkind"])
        J2t = torch.tensor(J @ Q, dtype=tdt)
        want = x0 @ Q
        label = f"orthogonal:{name}"
    elif relation == "colperm":
        p = case["perm"]
        J2t = Jt[:, p]
        want = x0[p]
        label = f"column-permutation:{name}"
    else:
        cols, src = [], 0
        pos = case["positions"]
        if isinstance(pos, dict):  # a block of `count` zero columns inserted at one position
            pos = [pos["where"]] * pos["count"]
            out.cls("zerocol:wide")
        pos = list(pos)
        newpos, keep = [], []
        total = n + len(pos)
        # positions refer to insertion points in the original matrix
        ins_at = sorted(pos)
        j = 0
        for orig in range(n + 1):
            while j < len(ins_at) and ins_at[j] == orig:
                newpos.append(len(cols))
                cols.append(None)
                j += 1
            if orig < n:
                keep.append(len(cols))
                cols.append(orig)
        J2 = np.zeros((m, total))
        J2[:, keep] = J
        J2t = torch.tensor(J2, dtype=tdt)
        want = np.zeros(total)
        want[keep] = x0
        label = f"zero-columns:{name}"
    J2 = J2t.double().numpy()
    if name == "PCGrad" and refs.pcgrad_margin(J2, case["schedule"]) < rel.MARGIN[dtype] * 10:
        # a branch test g.g_j < 0 at (numerical) zero: PCGrad is continuous there (the correction vanishes with the
        # inner product), so the relation is still checked - only recorded as a class
        out.cls("pcgrad-branch-tie")
    reason = rel.domain_exclusion(spec, dtype, J2)
    if reason:
        out.excluded = reason + "(transformed)"
        return out
    r = out.call(f"raises:{name}", _run, spec, dtype, J2t, case)
    if r is RAISED:
        return out
    x1 = r[1].double().numpy()
    err = float(np.linalg.norm(x1 - want))
    msg = f"{relation}: got {x1.tolist()}, expected {want.tolist()}"
    if name == "MGDA":
        tight = min(rel.mgda_margin(spec, J), rel.mgda_margin(spec, J2)) > rel.MARGIN[dtype]
        if tight:
            out.cls("MGDA:tight")
            out.within(err, tol * max(1, min(spec.get("max_iters", 100), 30)), label, msg)
        else:
            out.cls("MGDA:loose")
            bound = rel.mgda_loose_bound(J, x0) + rel.mgda_loose_bound(J2, x1) + tol
            out.check(err <= bound, label + ":loose", msg + f"; differ by {err:.3e} > d(J)+d(J') = {bound:.3e}")
    else:
        out.within(err, tol, label, msg)
    if relation == "zerocol":
        z = float(np.abs(x1[newpos]).max())
        out.within(z, tol * 1e-3 if name not in rel.RANK_BASED else tol, f"zero-columns-nonzero-entry:{name}",
                   f"entries at the inserted zero columns: {x1[newpos].tolist()}")
        if z == 0.0:
            out.cls("zerocol:exact-zeros")
        out.nontrivial = m >= 2
    elif relation == "orth":
        out.nontrivial = case["qkind"] == "dense" and conflicting and n >= 2
    else:
        out.nontrivial = sum(1 for i, q in enumerate(case["perm"]) if i != q) >= 2
    return out
